#!/usr/bin/env python3
import json,sys
d=json.load(open(sys.argv[1]))
sc=d['scenario']; w=sc['world']
print(w['grammar_id'], w['vocab']['kind'], len(w['vocab']['words']), w['vocab']['mode'], 'canon',w['canonical'], 'slices',w['slices'], 'alts', sc.get('alts'), 'mirrors', sc.get('mirrors'), 'faulty',sc['fault_injecting'], w['limits'] if sc['fault_injecting'] else '', sc.get('schedule'))
print(w['grammar_text'][:500])
if sc['setup']:
  print('setup')
  for o in sc['setup']: print('  ',o)
for i,t in enumerate(sc['tasks']):
  print('task',i)
  for o in t[:45]: print('  ',o)
v=d['violation']
if v: print(v['oracle'],v['signature'],'task',v['task'],'step',v['step']); print(v['detail'][:700])
