#!/bin/bash
# Build the simulator against another checkout of llguidance (scratch worktree) and run a command.
#   with_tree.sh <repo-dir> <scratch-dir> -- <args to llg-sim ...>
# The scratch dir (outside /repo and /verif) receives a copy of /verif/sim with its path
# dependencies redirected, and the build output. Remove it when done.
set -euo pipefail
REPO=$1; SCRATCH=$2; shift 2; [ "$1" = "--" ] && shift
mkdir -p "$SCRATCH/v/sim" "$SCRATCH/v/data"
rsync -a --delete /verif/sim/src /verif/sim/Cargo.lock /verif/sim/.cargo "$SCRATCH/v/sim/" 
rsync -a /verif/data/ "$SCRATCH/v/data/"
sed -e "s#/repo/parser#$REPO/parser#; s#/repo/toktrie#$REPO/toktrie#" /verif/sim/Cargo.toml > "$SCRATCH/v/sim/Cargo.toml"
( cd "$SCRATCH/v/sim" && CARGO_NET_OFFLINE=true CARGO_TARGET_DIR="$SCRATCH/target" RUSTFLAGS="--cfg llguidance_verif" cargo build --release --offline 2>&1 | grep -E "^(error|warning: unused)" -A 8 | head -40 || true )
B="$SCRATCH/target/release/llg-sim"
[ -x "$B" ] || { echo "build failed"; exit 2; }
exec "$B" "$@"
