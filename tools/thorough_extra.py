#!/usr/bin/env python3
"""Supplements, run by ./check <ID> before the main batch: all of them in the thorough tier; in the
quick tier only a reduced simcheck batch for C20 (an internal arithmetic overflow is invisible in a
release build: the value wraps and a result is returned).

 1. determinism self-test (all properties): 200 run indices executed under 3 process layouts,
    event-log hashes must be identical -> otherwise harness error (exit 2)
 2. simcheck flavour (debug-assertions + overflow-checks on, hooks on): a tenth of the thorough
    batch (the full batch for C20) - an arithmetic overflow or a debug assertion becomes a caught
    panic and hence a violation of the "no internal panic" oracle
 3. real-thread supplement (C14, C17; NOT deciding, uncontrolled): plain build (guard off, real
    rayon, real mutex contention), tasks run as free-running OS threads; the oracles are
    schedule-independent, so a mismatch is a true violation, but it may not replay
 4. Miri sample (C17): a few tiny C-API scenarios interpreted by Miri (memory bounds witness)

Writes a JSON summary (merged into the evidence file under coverage.supplements) and prints
VIOLATION lines of the supplement batches. Exit code: 0 ok, 1 violation, 2 harness error.
"""
import json, os, subprocess, sys, time

V = os.path.dirname(os.path.dirname(os.path.abspath(__file__)))
prop, seed, jobs, out = sys.argv[1], int(sys.argv[2]), int(sys.argv[3]), sys.argv[4]
tier = sys.argv[5] if len(sys.argv) > 5 else "thorough"
env = dict(os.environ, CARGO_NET_OFFLINE="true")
summary = {}
rc = 0


def build(flavour):
    flags = "" if flavour == "plain" else "--cfg llguidance_verif"
    profile = "simcheck" if flavour == "simcheck" else "release"
    e = dict(env, CARGO_TARGET_DIR=f"{V}/target-{flavour}", RUSTFLAGS=flags)
    r = subprocess.run(["cargo", "build", "--profile", profile, "--offline"], cwd=f"{V}/sim", env=e,
                       stdout=subprocess.PIPE, stderr=subprocess.STDOUT, text=True)
    if r.returncode != 0:
        print(f"HARNESS-ERROR build of flavour {flavour} failed")
        print(r.stdout[-2000:])
        return None
    sub = "simcheck" if flavour == "simcheck" else "release"
    return f"{V}/target-{flavour}/{sub}/llg-sim"


def run_batch(binary, args, label):
    global rc
    t0 = time.time()
    r = subprocess.run([binary, "batch", "--prop", prop, "--seed", str(seed), "--jobs", str(jobs),
                        "--out", f"{V}/out", "--known", f"{V}/known_findings.json"] + args,
                       stdout=subprocess.PIPE, stderr=subprocess.STDOUT, text=True)
    lines = r.stdout.splitlines()
    for l in lines:
        if l.startswith(("VIOLATION", "KNOWN-FINDING", "HARNESS-ERROR", "  oracle=")):
            print(f"[{label}] {l}" if not l.startswith(("VIOLATION", "KNOWN-FINDING")) else l)
    runs = [l for l in lines if l.startswith("runs=")]
    summary[label] = {"exit": r.returncode, "wall_s": round(time.time() - t0, 1),
                      "summary": runs[0] if runs else "", "args": " ".join(args)}
    if r.returncode > rc:
        rc = r.returncode


main_bin = f"{V}/target-verif/release/llg-sim"
if tier == "quick":
    if prop == "C20":
        b = build("simcheck")
        if b is None:
            rc = 2
        else:
            # regression scenarios whose defect only shows with overflow checks on
            r = subprocess.run([b, "regress", "--prop", prop, "--dir", f"{V}/regress"],
                               stdout=subprocess.PIPE, stderr=subprocess.STDOUT, text=True)
            for l in r.stdout.splitlines():
                if l.startswith("VIOLATION") or l.startswith("  regression scenario"):
                    print(l)
            summary["simcheck_regress"] = {"exit": r.returncode, "result": (r.stdout.strip().splitlines() or [""])[-1]}
            if r.returncode > rc:
                rc = r.returncode
            run_batch(b, ["--tier", "quick", "--count", "2500", "--flavour", "simcheck"], "simcheck_overflow_and_debug_assertions")
    json.dump(summary, open(out, "w"), indent=1)
    sys.exit(rc)
counts = json.loads(subprocess.run([main_bin, "counts"], stdout=subprocess.PIPE, text=True).stdout or "{}")
thorough_n = counts.get(prop, {}).get("thorough", 10000)

# 1. determinism
t0 = time.time()
r = subprocess.run([main_bin, "selftest", "--prop", prop, "--tier", "thorough", "--seed", str(seed), "--count", "200"],
                   stdout=subprocess.PIPE, stderr=subprocess.STDOUT, text=True)
last = r.stdout.strip().splitlines()[-1] if r.stdout.strip() else ""
print(last)
summary["determinism_selftest"] = {"exit": r.returncode, "result": last, "wall_s": round(time.time() - t0, 1)}
if r.returncode != 0:
    print("HARNESS-ERROR nondeterminism detected")
    for l in r.stdout.splitlines():
        if l.startswith("NONDET"):
            print(l)
    rc = max(rc, 2)

# 2. simcheck flavour
b = build("simcheck")
if b is None:
    rc = max(rc, 2)
else:
    n = thorough_n if prop == "C20" else max(200, thorough_n // 10)
    # different run indices than the main batch would be pointless (same scenarios are the point:
    # same histories, now with overflow checks); use the first n indices
    run_batch(b, ["--tier", "thorough", "--count", str(n), "--flavour", "simcheck"], "simcheck_overflow_and_debug_assertions")

# 3. real threads
if prop in ("C14", "C17"):
    b = build("plain")
    if b is None:
        rc = max(rc, 2)
    else:
        run_batch(b, ["--tier", "thorough", "--count", str(max(200, thorough_n // 10)), "--real-threads",
                      "--flavour", "plain-real-threads"], "real_thread_supplement_uncontrolled")

# 4. Miri
if prop == "C17":
    t0 = time.time()
    # hooks compiled in but only the sequential path of the shim is taken (single task, no scheduler)
    e = dict(env, CARGO_TARGET_DIR=f"{V}/target-miri", RUSTFLAGS="--cfg llguidance_verif",
             MIRIFLAGS="-Zmiri-disable-isolation -Zmiri-ignore-leaks")
    files = [f"{V}/regress/F2_par_mask_overread.json", f"{V}/regress/M1_capi_small.json"]
    res = []
    for f in files:
        if not os.path.exists(f):
            continue
        r = subprocess.run(["cargo", "+nightly", "miri", "run", "--offline", "--", "replay", f],
                           cwd=f"{V}/sim", env=e, stdout=subprocess.PIPE, stderr=subprocess.STDOUT, text=True,
                           timeout=3600)
        ub = "Undefined Behavior" in r.stdout
        res.append({"scenario": os.path.basename(f), "exit": r.returncode, "undefined_behaviour": ub,
                    "tail": r.stdout.strip().splitlines()[-3:]})
        if ub:
            print(f"  oracle=miri signature=undefined_behaviour detail={f}")
            print(f"VIOLATION property={prop} replay={f}")
            rc = max(rc, 1)
        elif r.returncode not in (0,):
            # replay exits 1 only if the scenario violates an oracle; anything else is a harness problem
            if "VIOLATION" in r.stdout:
                print(f"VIOLATION property={prop} replay={f}")
                rc = max(rc, 1)
            else:
                print(f"note: miri run of {f} ended with exit {r.returncode} (not judged)")
    summary["miri_sample"] = {"runs": res, "wall_s": round(time.time() - t0, 1)}

json.dump(summary, open(out, "w"), indent=1)
sys.exit(rc)
