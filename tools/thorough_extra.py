#!/usr/bin/env python3
"""Thorough-tier supplements (filled in below): simcheck flavour, real-thread supplement, Miri, determinism."""
import json, sys
prop, seed, jobs, out = sys.argv[1], int(sys.argv[2]), int(sys.argv[3]), sys.argv[4]
json.dump({}, open(out, "w"))
sys.exit(0)
