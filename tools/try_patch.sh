#!/bin/bash
# try_patch.sh <patch-file> <label> <prop> [<prop>...]
# Apply a seeded change to /repo, run the quick checks of the given properties, undo it straight afterwards.
# Prints one line per property: DETECTED / missed (+ the oracle signatures seen).
set -u
PATCH=$1; LABEL=$2; shift 2
cd /verif
[ -z "$(git -C /repo status --porcelain)" ] || { echo "/repo is not clean"; exit 2; }
cleanup() { git -C /repo checkout -- . ; git -C /repo clean -fdq parser/tests 2>/dev/null; }
trap cleanup EXIT
git -C /repo apply "$PATCH" || { echo "patch does not apply"; exit 2; }
mkdir -p /verif/out/try
for P in "$@"; do
  LOG=/verif/out/try/$LABEL-$P.log
  # the evidence file must keep describing the unchanged tree
  cp /verif/evidence/$P.json /verif/out/try/evidence-$P.json.bak 2>/dev/null
  VERIF_SEED=${VERIF_SEED:-20260923} ./check $P --tier quick > $LOG 2>&1
  rc=$?
  sigs=$(grep "^  oracle\|regression scenario" $LOG | sed 's/detail=.*//; s/^ *//' | sort | uniq -c | tr '\n' ';' | cut -c1-400)
  cp /verif/out/try/evidence-$P.json.bak /verif/evidence/$P.json 2>/dev/null
  if [ $rc -eq 1 ]; then echo "$LABEL $P DETECTED rc=$rc :: $sigs"; elif [ $rc -eq 0 ]; then echo "$LABEL $P missed"; else echo "$LABEL $P HARNESS rc=$rc $(tail -3 $LOG | tr '\n' ' ')"; fi
done
