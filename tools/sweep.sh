#!/bin/bash
# sweep.sh <count> <tier> <seed> [props...]  - run batches and summarise (development helper)
COUNT=$1; TIER=$2; SEED=$3; shift 3
PROPS=${@:-C01 C02 C03 C10 C11 C12 C13 C14 C17 C18 C20}
B=${B:-/verif/target-verif/release/llg-sim}
for p in $PROPS; do
  timeout 3000 $B batch --prop $p --tier $TIER --seed $SEED --count $COUNT --jobs 16 --hang-secs 30 --out /verif/out > /verif/out/$p.log 2>&1
  echo "## $p rc=$? viol=$(grep -c '^VIOLATION' /verif/out/$p.log) $(grep '^runs=' /verif/out/$p.log | cut -c1-230)"
  grep "^  oracle" /verif/out/$p.log | sed 's/detail=.*//' | sort | uniq -c
  grep "^HARNESS" /verif/out/$p.log
done
