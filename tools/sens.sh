#!/bin/bash
# sens.sh <worktree> <scratch> <summary-file> <patch> <prop> [<prop>...]
# Apply a patch in a scratch worktree, build the simulator against it (snapshot of /verif/sim taken
# on first use of <scratch>), run regress + quick batch per property, revert.
set -u
WT=$1; SC=$2; SUM=$3; PATCH=$4; shift 4
NAME=$(basename $PATCH .diff)
mkdir -p $SC/v/sim $SC/v/data $SC/out
if [ ! -f $SC/v/sim/Cargo.toml ] || [ "${REFRESH_SIM:-0}" = 1 ]; then
  rsync -a --delete /verif/sim/src /verif/sim/Cargo.lock /verif/sim/.cargo $SC/v/sim/
  rsync -a /verif/data/ $SC/v/data/
  sed -e "s#/repo/parser#$WT/parser#; s#/repo/toktrie#$WT/toktrie#" /verif/sim/Cargo.toml > $SC/v/sim/Cargo.toml
fi
git -C $WT checkout -q -- . ; git -C $WT apply $PATCH || { echo "$NAME APPLY-FAILED" >> $SUM; exit 0; }
( cd $SC/v/sim && CARGO_NET_OFFLINE=true CARGO_TARGET_DIR=$SC/target RUSTFLAGS="--cfg llguidance_verif" cargo build --release --offline > $SC/out/build-$NAME.log 2>&1 )
if [ $? -ne 0 ]; then echo "$NAME BUILD-FAILED" >> $SUM; git -C $WT checkout -q -- .; exit 0; fi
B=$SC/target/release/llg-sim
for P in "$@"; do
  LOG=$SC/out/$NAME-$P.log
  $B regress --prop $P --dir /verif/regress > $LOG 2>&1; r1=$?
  timeout 1200 $B batch --prop $P --tier quick --seed ${VERIF_SEED:-20260923} --jobs ${JOBS:-16} --out $SC/out --known /verif/known_findings.json ${COUNT:+--count $COUNT} >> $LOG 2>&1; r2=$?
  sigs=$(grep "^  oracle\|regression scenario" $LOG | sed 's/detail=.*//; s/^ *//; s/(repaired defect.*)//' | sort | uniq -c | sort -rn | head -4 | tr '\n' ';' | tr -s ' ' | cut -c1-300)
  if [ $r1 -eq 1 ] || [ $r2 -eq 1 ]; then echo "$NAME $P DETECTED :: $sigs" >> $SUM; else echo "$NAME $P missed (rc $r1 $r2)" >> $SUM; fi
done
git -C $WT checkout -q -- .
