//! Engine handles under test: Rust `Matcher` / `Constraint` and their C-API twins,
//! behind one small interface so that operations and oracles are written once.

use std::ffi::{c_void, CStr, CString};
use std::sync::Arc;

use anyhow::{anyhow, bail, Result};
use llguidance::api::StopReason;
use llguidance::ffi::*;
use llguidance::toktrie::{SimpleVob, TokEnv, TokenId};
use llguidance::{Constraint, Matcher};

use crate::corpus::GKind;
use crate::world::{unhex, World};

/// Bits of a mask as plain words, trimmed/padded to ceil(vocab/32) words.
pub fn mask_words(m: &SimpleVob, n_vocab: usize) -> Vec<u32> {
    let n = n_vocab.div_ceil(32);
    let s = m.as_slice();
    (0..n).map(|i| s.get(i).copied().unwrap_or(0)).collect()
}

pub fn bit(words: &[u32], t: u32) -> bool {
    let i = (t / 32) as usize;
    i < words.len() && (words[i] >> (t % 32)) & 1 == 1
}

pub fn set_bits(words: &[u32]) -> Vec<u32> {
    let mut r = vec![];
    for (i, w) in words.iter().enumerate() {
        let mut w = *w;
        while w != 0 {
            let b = w.trailing_zeros();
            r.push(i as u32 * 32 + b);
            w &= w - 1;
        }
    }
    r
}

// ------------------------------------------------------------------ C tokenizer

pub struct CTok {
    pub tok: *mut LlgTokenizer,
    // keep alive: the callback's user data
    _env: Box<TokEnv>,
    _lens: Vec<u32>,
    _bytes: Vec<u8>,
    _slices_c: Vec<CString>,
    _slices_p: Vec<*const std::ffi::c_char>,
}

unsafe impl Send for CTok {}
unsafe impl Sync for CTok {}

impl Drop for CTok {
    fn drop(&mut self) {
        unsafe { llg_free_tokenizer(self.tok) }
    }
}

pub static TOKENIZE_CB_SHORT: std::sync::atomic::AtomicU64 = std::sync::atomic::AtomicU64::new(0);

extern "C" fn tokenize_cb(
    user_data: *const c_void,
    bytes: *const u8,
    bytes_len: usize,
    output_tokens: *mut u32,
    output_tokens_len: usize,
) -> usize {
    let env: &TokEnv = unsafe { &*(user_data as *const TokEnv) };
    let s = if bytes_len == 0 {
        &[][..]
    } else {
        unsafe { std::slice::from_raw_parts(bytes, bytes_len) }
    };
    let toks = env.tokenize_bytes(s);
    let n = toks.len().min(output_tokens_len);
    if toks.len() > output_tokens_len {
        TOKENIZE_CB_SHORT.fetch_add(1, std::sync::atomic::Ordering::Relaxed);
    }
    if n > 0 {
        unsafe { std::ptr::copy_nonoverlapping(toks.as_ptr(), output_tokens, n) };
    }
    toks.len()
}

impl CTok {
    pub fn new(world: &World, use_v2: bool) -> Result<CTok> {
        let env = Box::new(world.tok_env.clone());
        let words: Vec<Vec<u8>> = world.spec.vocab.words.iter().map(|w| unhex(w)).collect();
        let lens: Vec<u32> = words.iter().map(|w| w.len() as u32).collect();
        let bytes: Vec<u8> = words.iter().flatten().copied().collect();
        let slices_c: Vec<CString> = match &world.spec.slices {
            None => vec![],
            Some(l) => l.iter().map(|s| CString::new(s.as_str()).unwrap()).collect(),
        };
        let mut slices_p: Vec<*const std::ffi::c_char> =
            slices_c.iter().map(|c| c.as_ptr()).collect();
        slices_p.push(std::ptr::null());
        let canonical = world.spec.canonical;
        let mut err = vec![0u8; 512];
        let eos_extra: Vec<u32> = world.spec.vocab.eos_extra.clone();
        let use_v2 = use_v2 || !eos_extra.is_empty();
        let tok = if use_v2 {
            let init = LlgTokenizerInitV2 {
                struct_size: std::mem::size_of::<LlgTokenizerInitV2>(),
                vocab_size: words.len() as u32,
                tok_eos: world.spec.vocab.eos,
                token_lens: lens.as_ptr(),
                token_bytes: bytes.as_ptr(),
                tokenizer_json: std::ptr::null(),
                tokenize_assumes_string: false,
                tokenize_fn: if canonical { Some(tokenize_cb) } else { None },
                use_approximate_greedy_tokenize_fn: !canonical,
                tokenize_user_data: &*env as *const TokEnv as *const c_void,
                slices: if world.spec.slices.is_none() {
                    std::ptr::null()
                } else {
                    slices_p.as_ptr()
                },
                tok_eos_extra: if eos_extra.is_empty() {
                    std::ptr::null()
                } else {
                    eos_extra.as_ptr()
                },
                tok_eos_extra_count: eos_extra.len() as u32,
            };
            unsafe { llg_new_tokenizer_v2(&init, err.as_mut_ptr() as *mut _, err.len()) }
        } else {
            let init = LlgTokenizerInit {
                vocab_size: words.len() as u32,
                tok_eos: world.spec.vocab.eos,
                token_lens: lens.as_ptr(),
                token_bytes: bytes.as_ptr(),
                tokenizer_json: std::ptr::null(),
                tokenize_assumes_string: false,
                tokenize_fn: if canonical { Some(tokenize_cb) } else { None },
                use_approximate_greedy_tokenize_fn: !canonical,
                tokenize_user_data: &*env as *const TokEnv as *const c_void,
                slices: if world.spec.slices.is_none() {
                    std::ptr::null()
                } else {
                    slices_p.as_ptr()
                },
            };
            unsafe { llg_new_tokenizer(&init, err.as_mut_ptr() as *mut _, err.len()) }
        };
        if tok.is_null() {
            let e = CStr::from_bytes_until_nul(&err)
                .map(|c| c.to_string_lossy().to_string())
                .unwrap_or_default();
            bail!("llg_new_tokenizer failed: {e}");
        }
        Ok(CTok {
            tok,
            _env: env,
            _lens: lens,
            _bytes: bytes,
            _slices_c: slices_c,
            _slices_p: slices_p,
        })
    }

    pub fn init(&self, world: &World, ff_tokens: bool) -> LlgConstraintInit {
        LlgConstraintInit {
            tokenizer: self.tok,
            log_buffer_level: 0,
            log_stderr_level: 0,
            ff_tokens_ok: ff_tokens,
            backtrack_ok: false,
            limits: world.spec.limits.to_limits(),
        }
    }
}

fn kind_tag(k: GKind) -> &'static str {
    match k {
        GKind::Lark => "lark",
        GKind::Regex => "regex",
        GKind::Json => "json_schema",
    }
}

// ------------------------------------------------------------------ matcher-like

pub struct CMatcher {
    pub p: *mut LlgMatcher,
    pub n_vocab: usize,
    pub ctok: Arc<CTok>,
}
unsafe impl Send for CMatcher {}

impl Drop for CMatcher {
    fn drop(&mut self) {
        unsafe { llg_free_matcher(self.p) }
    }
}

impl CMatcher {
    pub fn new(world: &World, ctok: &Arc<CTok>) -> CMatcher {
        let init = ctok.init(world, false);
        let tp = CString::new(kind_tag(world.spec.grammar_kind)).unwrap();
        let data = CString::new(world.spec.grammar_text.as_str()).unwrap();
        let p = unsafe { llg_new_matcher(&init, tp.as_ptr(), data.as_ptr()) };
        CMatcher {
            p,
            n_vocab: world.n_vocab(),
            ctok: ctok.clone(),
        }
    }
    fn r(&mut self) -> &mut LlgMatcher {
        unsafe { &mut *self.p }
    }
    fn err(&mut self) -> anyhow::Error {
        let p = llg_matcher_get_error(self.r());
        if p.is_null() {
            anyhow!("c-matcher: error (no message)")
        } else {
            let m = unsafe { CStr::from_ptr(p) }.to_string_lossy().to_string();
            if m.contains("mask_dest size mismatch") && llg_matcher_is_error(self.r()) {
                // llg_matcher_get_error keeps returning the first message it stored: after a
                // rejected compute_mask_into (wrong size, matcher stays usable) the real reason of a
                // later failure is masked. The Rust twin of the mirror group sees the real error.
                anyhow!("parser error: (c-matcher error message masked by an earlier size-mismatch message)")
            } else {
                anyhow!("{}", m)
            }
        }
    }
    /// mask via llg_matcher_compute_mask + get_mask
    fn mask_ptr(&mut self) -> Result<Vec<u32>> {
        if llg_matcher_compute_mask(self.r()) != 0 {
            return Err(self.err());
        }
        let p = llg_matcher_get_mask(self.r());
        let nb = llg_matcher_get_mask_byte_size(self.r());
        if p.is_null() {
            bail!("c-matcher: null mask");
        }
        Ok(unsafe { std::slice::from_raw_parts(p, nb / 4) }.to_vec())
    }
}

pub enum MH {
    R(Matcher),
    C(CMatcher),
}

/// What every matcher-like handle can do. Masks are returned as words (ceil(vocab/32)).
impl MH {
    pub fn kind(&self) -> &'static str {
        match self {
            MH::R(_) => "matcher",
            MH::C(_) => "c_matcher",
        }
    }
    pub fn compute_mask(&mut self, n_vocab: usize) -> Result<Vec<u32>> {
        match self {
            MH::R(m) => m.compute_mask().map(|v| mask_words(&v, n_vocab)),
            MH::C(c) => {
                // the C API only offers compute_mask_or_eos semantics
                c.mask_ptr()
            }
        }
    }
    pub fn compute_mask_or_eos(&mut self, n_vocab: usize) -> Result<Vec<u32>> {
        match self {
            MH::R(m) => m.compute_mask_or_eos().map(|v| mask_words(&v, n_vocab)),
            MH::C(c) => c.mask_ptr(),
        }
    }
    pub fn validate_tokens(&mut self, toks: &[TokenId]) -> Result<usize> {
        match self {
            MH::R(m) => m.validate_tokens(toks),
            MH::C(c) => {
                let r = unsafe { llg_matcher_validate_tokens(c.r(), toks.as_ptr(), toks.len()) };
                if r < 0 {
                    Err(c.err())
                } else {
                    Ok(r as usize)
                }
            }
        }
    }
    pub fn consume_tokens(&mut self, toks: &[TokenId]) -> Result<()> {
        match self {
            MH::R(m) => m.consume_tokens(toks),
            MH::C(c) => {
                let r = if toks.len() == 1 {
                    llg_matcher_consume_token(c.r(), toks[0])
                } else {
                    unsafe { llg_matcher_consume_tokens(c.r(), toks.as_ptr(), toks.len()) }
                };
                if r != 0 {
                    Err(c.err())
                } else {
                    Ok(())
                }
            }
        }
    }
    pub fn try_consume_tokens(&mut self, toks: &[TokenId]) -> Result<usize> {
        match self {
            MH::R(m) => m.try_consume_tokens(toks),
            MH::C(_) => bail!("unsupported"),
        }
    }
    pub fn rollback(&mut self, k: usize) -> Result<()> {
        match self {
            MH::R(m) => m.rollback(k),
            MH::C(c) => {
                if llg_matcher_rollback(c.r(), k) != 0 {
                    Err(c.err())
                } else {
                    Ok(())
                }
            }
        }
    }
    pub fn reset(&mut self) -> Result<()> {
        match self {
            MH::R(m) => m.reset(),
            MH::C(c) => {
                if llg_matcher_reset(c.r()) != 0 {
                    Err(c.err())
                } else {
                    Ok(())
                }
            }
        }
    }
    pub fn is_accepting(&mut self) -> Result<bool> {
        match self {
            MH::R(m) => m.is_accepting(),
            MH::C(c) => {
                if llg_matcher_is_error(c.r()) {
                    Err(c.err())
                } else {
                    Ok(llg_matcher_is_accepting(c.r()))
                }
            }
        }
    }
    pub fn is_stopped(&mut self) -> bool {
        match self {
            MH::R(m) => m.is_stopped(),
            MH::C(c) => llg_matcher_is_stopped(c.r()),
        }
    }
    pub fn is_error(&mut self) -> bool {
        match self {
            MH::R(m) => m.is_error(),
            MH::C(c) => llg_matcher_is_error(c.r()),
        }
    }
    pub fn get_error(&mut self) -> Option<String> {
        match self {
            MH::R(m) => m.get_error(),
            MH::C(c) => {
                if llg_matcher_is_error(c.r()) {
                    Some(c.err().to_string())
                } else {
                    None
                }
            }
        }
    }
    pub fn stop_reason(&mut self) -> Option<StopReason> {
        match self {
            MH::R(m) => Some(m.stop_reason()),
            MH::C(_) => None,
        }
    }
    pub fn compute_ff_tokens(&mut self) -> Vec<TokenId> {
        match self {
            MH::R(m) => m.compute_ff_tokens(),
            MH::C(c) => {
                let mut out = vec![0u32; 70_000];
                let r =
                    unsafe { llg_matcher_compute_ff_tokens(c.r(), out.as_mut_ptr(), out.len()) };
                if r < 0 {
                    vec![]
                } else {
                    out.truncate(r as usize);
                    out
                }
            }
        }
    }
    pub fn compute_ff_bytes(&mut self) -> Option<Vec<u8>> {
        match self {
            MH::R(m) => Some(m.compute_ff_bytes()),
            MH::C(_) => None,
        }
    }
    /// captures recorded so far, in order (Rust matchers only)
    pub fn captures(&self) -> Option<Vec<(String, Vec<u8>)>> {
        match self {
            MH::R(m) => Some(m.captures().to_vec()),
            MH::C(_) => None,
        }
    }
    pub fn invalidate_bias_cache(&mut self) {
        if let MH::R(m) = self {
            m.invalidate_bias_cache()
        }
    }
    pub fn test_trigger_lexer_error(&mut self) -> Result<()> {
        match self {
            MH::R(m) => m.test_trigger_lexer_error(),
            MH::C(_) => bail!("unsupported"),
        }
    }
    pub fn clone_handle(&mut self, deep: bool) -> MH {
        match self {
            MH::R(m) => MH::R(if deep { m.deep_clone() } else { m.clone() }),
            MH::C(c) => {
                // the C API only has a (deep) clone
                let p = llg_clone_matcher(c.r());
                MH::C(CMatcher {
                    p,
                    n_vocab: c.n_vocab,
                    ctok: c.ctok.clone(),
                })
            }
        }
    }
    pub fn slices_applied(&self) -> usize {
        match self {
            MH::R(m) => m.last_step_stats().map(|s| s.slices_applied).unwrap_or(0),
            MH::C(_) => 0,
        }
    }
    pub fn cached_rows(&self) -> usize {
        match self {
            MH::R(m) => m.last_step_stats().map(|s| s.cached_rows).unwrap_or(0),
            MH::C(_) => 0,
        }
    }
    pub fn lexer_cost(&self) -> u64 {
        match self {
            MH::R(m) => m.last_step_stats().map(|s| s.lexer_cost).unwrap_or(0),
            MH::C(_) => 0,
        }
    }
}

// ------------------------------------------------------------------ constraint-like

pub struct CConstraint {
    pub p: *mut LlgConstraint,
    pub n_vocab: usize,
    pub ctok: Arc<CTok>,
    /// temperature field of the last LlgMaskResult
    pub last_mask_temp: f32,
}
unsafe impl Send for CConstraint {}
impl Drop for CConstraint {
    fn drop(&mut self) {
        unsafe { llg_free_constraint(self.p) }
    }
}

impl CConstraint {
    pub fn new(world: &World, ctok: &Arc<CTok>, ff_tokens: bool, variant: usize) -> CConstraint {
        let init = ctok.init(world, ff_tokens);
        let data = CString::new(world.spec.grammar_text.as_str()).unwrap();
        let p = if variant % 2 == 0 {
            match world.spec.grammar_kind {
                GKind::Lark => llg_new_constraint_lark(&init, data.as_ptr()),
                GKind::Regex => llg_new_constraint_regex(&init, data.as_ptr()),
                GKind::Json => llg_new_constraint_json(&init, data.as_ptr()),
            }
        } else {
            let tp = CString::new(kind_tag(world.spec.grammar_kind)).unwrap();
            llg_new_constraint_any(&init, tp.as_ptr(), data.as_ptr())
        };
        CConstraint {
            p,
            n_vocab: world.n_vocab(),
            ctok: ctok.clone(),
            last_mask_temp: 0.0,
        }
    }
    pub fn r(&mut self) -> &mut LlgConstraint {
        unsafe { &mut *self.p }
    }
    pub fn err(&mut self) -> Option<String> {
        let p = llg_get_error(self.r());
        if p.is_null() {
            None
        } else {
            Some(
                unsafe { CStr::from_ptr(p) }
                    .to_string_lossy()
                    .to_string(),
            )
        }
    }
}

pub enum CH {
    R(Constraint),
    C(CConstraint),
}

#[derive(Debug, Clone, PartialEq, Eq)]
pub enum StepOut {
    Mask(Vec<u32>),
    Stop,
    /// unconditional splice (never produced when ff_tokens are off)
    Splice(Vec<TokenId>),
}

#[derive(Debug, Clone, PartialEq, Eq)]
pub struct CommitOut {
    pub stop: bool,
    pub tokens: Vec<TokenId>,
}

impl CH {
    pub fn kind(&self) -> &'static str {
        match self {
            CH::R(_) => "constraint",
            CH::C(_) => "c_constraint",
        }
    }
    pub fn compute_mask(&mut self, n_vocab: usize) -> Result<StepOut> {
        match self {
            CH::R(c) => {
                let r = c.compute_mask()?;
                if r.is_stop() {
                    Ok(StepOut::Stop)
                } else if let Some(m) = &r.sample_mask {
                    Ok(StepOut::Mask(mask_words(m, n_vocab)))
                } else {
                    Ok(StepOut::Splice(
                        r.unconditional_splice()
                            .map(|s| s.ff_tokens.clone())
                            .unwrap_or_default(),
                    ))
                }
            }
            CH::C(c) => {
                let mut res = LlgMaskResult {
                    sample_mask: std::ptr::null(),
                    temperature: 0.0,
                    is_stop: false,
                };
                if llg_compute_mask(c.r(), &mut res) != 0 {
                    bail!("{}", c.err().unwrap_or_default());
                }
                c.last_mask_temp = res.temperature;
                if res.is_stop {
                    Ok(StepOut::Stop)
                } else if res.sample_mask.is_null() {
                    Ok(StepOut::Splice(vec![]))
                } else {
                    let n = n_vocab.div_ceil(32);
                    Ok(StepOut::Mask(
                        unsafe { std::slice::from_raw_parts(res.sample_mask, n) }.to_vec(),
                    ))
                }
            }
        }
    }
    pub fn commit_token(&mut self, tok: Option<TokenId>) -> Result<CommitOut> {
        match self {
            CH::R(c) => {
                let r = c.commit_token(tok)?;
                Ok(CommitOut {
                    stop: r.stop,
                    tokens: r.ff_tokens,
                })
            }
            CH::C(c) => {
                let mut res = LlgCommitResult {
                    tokens: std::ptr::null(),
                    n_tokens: 0,
                    is_stop: false,
                };
                // the C API encodes "no token" as an out-of-range id
                let t = tok.unwrap_or(u32::MAX);
                if llg_commit_token(c.r(), t, &mut res) != 0 {
                    bail!("{}", c.err().unwrap_or_default());
                }
                let toks = if res.n_tokens == 0 {
                    vec![]
                } else {
                    unsafe { std::slice::from_raw_parts(res.tokens, res.n_tokens as usize) }
                        .to_vec()
                };
                Ok(CommitOut {
                    stop: res.is_stop,
                    tokens: toks,
                })
            }
        }
    }
    /// (temperature after the last compute_mask, temperature field of that mask result)
    pub fn temperature(&mut self) -> (f32, f32) {
        match self {
            CH::R(c) => (c.temperature, c.step_result().temperature.unwrap_or(c.temperature)),
            CH::C(c) => (llg_get_temperature(c.r()), c.last_mask_temp),
        }
    }
    pub fn is_stopped(&mut self) -> bool {
        match self {
            CH::R(c) => c.step_result().is_stop(),
            CH::C(c) => llg_is_stopped(c.r()),
        }
    }
    pub fn has_error(&mut self) -> Option<String> {
        match self {
            CH::R(_) => None,
            CH::C(c) => c.err(),
        }
    }
    pub fn clone_handle(&mut self, deep: bool) -> CH {
        match self {
            CH::R(c) => CH::R(if deep { c.deep_clone() } else { c.clone() }),
            CH::C(c) => {
                let p = llg_clone_constraint(c.r());
                CH::C(CConstraint {
                    p,
                    n_vocab: c.n_vocab,
                    ctok: c.ctok.clone(),
                    last_mask_temp: c.last_mask_temp,
                })
            }
        }
    }
}
