//! Running one scenario: a pure function of the scenario and the code.

use std::collections::HashSet;
use std::sync::{Arc, Mutex};

use serde::Serialize;

use crate::exec::*;
use crate::rng::mix;
use crate::scenario::*;
use crate::sched::{self, SchedStats};

#[derive(Clone, Debug, Serialize, Default)]
pub struct Outcome {
    pub violation: Option<Violation>,
    pub stats: RunStats,
    pub sched: Option<SchedStats>,
    pub hash: u64,
    pub log: Vec<String>,
    /// the world could not be built (input rejected with an error) - not a violation
    pub rejected: Option<String>,
    pub schedule_trace: Vec<u32>,
}

pub fn op_slots(op: &Op) -> Vec<SlotId> {
    let v = serde_json::to_value(op).unwrap();
    let mut r = vec![];
    for k in ["h", "src", "dst", "snap"] {
        if let Some(x) = v.get(k).and_then(|x| x.as_u64()) {
            r.push(x as usize);
        }
    }
    if let Some(a) = v.get("hs").and_then(|x| x.as_array()) {
        for x in a {
            if let Some(x) = x.as_u64() {
                r.push(x as usize);
            }
        }
    }
    r
}

fn needs_c(sc: &Scenario) -> bool {
    let has = |ops: &Vec<Op>| {
        ops.iter().any(|o| {
            matches!(
                o,
                Op::New {
                    kind: HKind::CMatcher | HKind::CConstraint { .. },
                    ..
                } | Op::StopNew { via_c: true, .. }
                    | Op::HostileC { .. }
            )
        })
    };
    has(&sc.setup) || sc.tasks.iter().any(has)
}

pub static REAL_THREADS: std::sync::atomic::AtomicBool = std::sync::atomic::AtomicBool::new(false);

pub fn run_scenario(sc: &Scenario, keep_log: bool) -> Outcome {
    let mut out = Outcome::default();
    let ctx = match std::panic::catch_unwind(|| Ctx::build(sc, needs_c(sc))) {
        Ok(Ok(c)) => c,
        Ok(Err(e)) => {
            out.rejected = Some(short(&e.to_string()));
            out.hash = mix(1, crate::rng::fnv(&short(&e.to_string())));
            if is_overflow_panic(&e.to_string()) {
                out.violation = Some(Violation {
                    property: sc.property.clone(),
                    oracle: "no_arithmetic_overflow".into(),
                    task: 0,
                    step: 0,
                    detail: format!("building the world: internal arithmetic overflow: {}", short(&e.to_string())),
                    signature: "overflow:build".into(),
                });
            } else if classify_err(&e.to_string()) == ErrClass::Panic {
                out.violation = Some(Violation {
                    property: sc.property.clone(),
                    oracle: "no_internal_panic".into(),
                    task: 0,
                    step: 0,
                    detail: format!("building the world failed with an internal panic: {}", short(&e.to_string())),
                    signature: "panic:build".into(),
                });
            }
            return out;
        }
        Err(p) => {
            let msg = p
                .downcast_ref::<String>()
                .cloned()
                .or_else(|| p.downcast_ref::<&str>().map(|s| s.to_string()))
                .unwrap_or_default();
            out.violation = Some(Violation {
                property: sc.property.clone(),
                oracle: "no_escaping_panic".into(),
                task: 0,
                step: 0,
                detail: format!("panic escaped while building factory/grammar: {}", short(&msg)),
                signature: "escaped_panic:build".into(),
            });
            return out;
        }
    };
    // setup on the coordinator
    let mut ex0 = Exec::new(&ctx, 999, keep_log);
    if let Err(v) = ex0.run_ops(&sc.setup, None) {
        out.violation = Some(v);
        out.stats = ex0.stats;
        out.log = ex0.log;
        return out;
    }
    let mut hash = ex0.log_hash;
    out.stats.merge(&ex0.stats);
    out.log.append(&mut ex0.log);

    if !sc.threads {
        // single task: no threads at all; the interleaving is the order of operations
        let mut ex = Exec::new(&ctx, 0, keep_log);
        ex.slots = std::mem::take(&mut ex0.slots);
        for (t, ops) in sc.tasks.iter().enumerate() {
            ex.task = t;
            if let Err(v) = ex.run_ops(ops, None) {
                out.violation = Some(v);
                break;
            }
        }
        hash = mix(hash, ex.log_hash);
        out.stats.merge(&ex.stats);
        out.log.append(&mut ex.log);
        drop(ex);
    } else {
        let spec = sc.schedule.clone().expect("threads need a schedule");
        let sched = sched::Sched::new(spec, 4000);
        // ownership: a slot belongs to the first task that mentions it
        let mut owned: Vec<HashSet<SlotId>> = vec![HashSet::new(); sc.tasks.len()];
        let mut taken: HashSet<SlotId> = HashSet::new();
        for (t, ops) in sc.tasks.iter().enumerate() {
            for op in ops {
                for s in op_slots(op) {
                    if !taken.contains(&s) {
                        taken.insert(s);
                        owned[t].insert(s);
                    }
                }
            }
        }
        let results: Arc<Mutex<Vec<Option<(Option<Violation>, RunStats, u64, Vec<String>)>>>> =
            Arc::new(Mutex::new(vec![None; sc.tasks.len()]));
        let mut execs: Vec<Exec> = vec![];
        for t in 0..sc.tasks.len() {
            let mut ex = Exec::new(&ctx, t, keep_log);
            let ids: Vec<SlotId> = ex0
                .slots
                .keys()
                .copied()
                .filter(|k| owned[t].contains(k))
                .collect();
            for id in ids {
                if let Some(s) = ex0.slots.remove(&id) {
                    ex.slots.insert(id, s);
                }
            }
            execs.push(ex);
        }
        if REAL_THREADS.load(std::sync::atomic::Ordering::Relaxed) {
            // real-thread supplement (not deciding, uncontrolled): free-running OS threads,
            // real contention on the real mutexes, real rayon in the plain build
            std::thread::scope(|s| {
                for (t, mut ex) in execs.into_iter().enumerate() {
                    let ops = &sc.tasks[t];
                    let results = results.clone();
                    s.spawn(move || {
                        let r = ex.run_ops(ops, None);
                        let v = r.err();
                        let stats = std::mem::take(&mut ex.stats);
                        let log = std::mem::take(&mut ex.log);
                        let h = ex.log_hash;
                        drop(ex);
                        results.lock().unwrap()[t] = Some((v, stats, h, log));
                    });
                }
            });
            let res = std::mem::take(&mut *results.lock().unwrap());
            for r in res.into_iter().flatten() {
                let (v, st, h, mut log) = r;
                if out.violation.is_none() {
                    out.violation = v;
                }
                out.stats.merge(&st);
                hash = mix(hash, h);
                out.log.append(&mut log);
            }
            out.stats.probe("real_thread_run");
            drop(ex0);
            out.hash = hash;
            return out;
        }
        let mut bodies: Vec<Box<dyn FnOnce() + Send + '_>> = vec![];
        for (t, mut ex) in execs.into_iter().enumerate() {
            let ops = &sc.tasks[t];
            let sched2 = sched.clone();
            let results = results.clone();
            bodies.push(Box::new(move || {
                let r = ex.run_ops(ops, Some(&sched2));
                let v = r.err();
                if v.is_some() {
                    sched2.set_abort();
                }
                let stats = std::mem::take(&mut ex.stats);
                let log = std::mem::take(&mut ex.log);
                let h = ex.log_hash;
                // dropping handles may take locks: do it while still a simulated task
                drop(ex);
                results.lock().unwrap()[t] = Some((v, stats, h, log));
            }));
        }
        sched.run_tasks(bodies);
        let res = std::mem::take(&mut *results.lock().unwrap());
        for r in res.into_iter().flatten() {
            let (v, st, h, mut log) = r;
            if out.violation.is_none() {
                out.violation = v;
            }
            out.stats.merge(&st);
            hash = mix(hash, h);
            out.log.append(&mut log);
        }
        if out.violation.is_none() {
            if let Some(d) = sched.deadlock() {
                out.violation = Some(Violation {
                    property: sc.property.clone(),
                    oracle: "deadlock".into(),
                    task: 0,
                    step: 0,
                    detail: d,
                    signature: "deadlock".into(),
                });
            }
        }
        let ss = sched.stats();
        hash = mix(hash, ss.schedule_hash);
        if ss.blocked_on_lock > 0 {
            out.stats.probe("task_blocked_on_lock");
        }
        if ss.switches_in_critical_section > 0 {
            out.stats.probe("context_switch_in_critical_section");
        }
        if let Some(pt) = sc.schedule.as_ref().and_then(|s| s.preempt_at.first().copied()) {
            if ss.decisions > pt {
                out.stats.probe("single_preemption_applied");
            } else {
                out.stats.probe("single_preemption_point_beyond_last_decision");
            }
        }
        out.schedule_trace = sched.trace();
        out.sched = Some(ss);
    }
    drop(ex0);
    out.hash = hash;
    out
}
