//! Delta debugging of a failing scenario while the *same oracle signature* keeps failing:
//! drop tasks, cut everything after the failing step, drop operations (chunks, then singles),
//! simplify faults, shrink arguments, simplify the schedule towards run-to-completion.

use std::time::{Duration, Instant};

use crate::run::run_scenario;
use crate::scenario::*;
use crate::sched::Strategy;

fn still_fails(sc: &Scenario, sig: &str) -> Option<Violation> {
    let r = std::panic::catch_unwind(|| run_scenario(sc, false));
    match r {
        Ok(o) => o.violation.filter(|v| v.signature == sig),
        Err(_) => None,
    }
}

pub fn minimize(sc0: &Scenario, v0: &Violation, max_runs: usize, budget: Duration) -> (Scenario, Violation, usize) {
    let t0 = Instant::now();
    let sig = v0.signature.clone();
    let mut best = sc0.clone();
    let mut bestv = v0.clone();
    let mut tried = 0usize;
    macro_rules! attempt {
        ($cand:expr) => {{
            if tried >= max_runs || t0.elapsed() > budget {
                false
            } else {
                tried += 1;
                let cand: Scenario = $cand;
                if let Some(v) = still_fails(&cand, &sig) {
                    best = cand;
                    bestv = v;
                    true
                } else {
                    false
                }
            }
        }};
    }
    // determinism guard: the original must fail again, otherwise report it untouched
    if still_fails(sc0, &sig).is_none() {
        return (best, bestv, tried);
    }
    // 1. cut after the failing step in the failing task
    if bestv.task < best.tasks.len() {
        let mut c = best.clone();
        let t = bestv.task;
        if bestv.step + 1 < c.tasks[t].len() {
            c.tasks[t].truncate(bestv.step + 1);
            attempt!(c);
        }
    }
    // 2. drop whole tasks
    let mut t = 0;
    while best.tasks.len() > 1 && t < best.tasks.len() {
        let mut c = best.clone();
        c.tasks[t].clear();
        if !best.tasks[t].is_empty() && attempt!(c) {
            continue;
        }
        t += 1;
    }
    // 3. schedule: run-to-completion
    if let Some(s) = &best.schedule {
        if s.strategy != Strategy::Serial {
            let mut c = best.clone();
            c.schedule.as_mut().unwrap().strategy = Strategy::Serial;
            attempt!(c);
        }
    }
    // 4. ddmin on operation lists (setup last)
    for which in 0..=best.tasks.len() {
        let get = |s: &Scenario| -> Vec<Op> {
            if which < s.tasks.len() {
                s.tasks[which].clone()
            } else {
                s.setup.clone()
            }
        };
        let set = |s: &mut Scenario, ops: Vec<Op>| {
            if which < s.tasks.len() {
                s.tasks[which] = ops;
            } else {
                s.setup = ops;
            }
        };
        let mut chunk = (get(&best).len() / 2).max(1);
        loop {
            let mut i = 0;
            let mut progressed = false;
            while i < get(&best).len() {
                let ops = get(&best);
                let end = (i + chunk).min(ops.len());
                // never drop the last op of the failing task (it is the failing check)
                let mut cand_ops = ops.clone();
                cand_ops.drain(i..end);
                let mut c = best.clone();
                set(&mut c, cand_ops);
                if attempt!(c) {
                    progressed = true;
                } else {
                    i += chunk;
                }
                if tried >= max_runs || t0.elapsed() > budget {
                    break;
                }
            }
            if tried >= max_runs || t0.elapsed() > budget {
                break;
            }
            if chunk == 1 && !progressed {
                break;
            }
            if !progressed {
                chunk = (chunk / 2).max(1);
            }
        }
    }
    // 5. simplify arguments: remove fuel faults, shorten pick lists
    for which in 0..best.tasks.len() {
        for i in 0..best.tasks[which].len() {
            let op = best.tasks[which][i].clone();
            let simpler: Option<Op> = match &op {
                Op::Commit { h, pick, fuel_at: Some(_) } => Some(Op::Commit {
                    h: *h,
                    pick: pick.clone(),
                    fuel_at: None,
                }),
                Op::Mask { h, fuel_at: Some(_) } => Some(Op::Mask { h: *h, fuel_at: None }),
                Op::CommitMany { h, picks } if picks.len() > 1 => Some(Op::CommitMany {
                    h: *h,
                    picks: picks[..picks.len() - 1].to_vec(),
                }),
                Op::Validate { h, picks } if picks.len() > 1 => Some(Op::Validate {
                    h: *h,
                    picks: picks[..1].to_vec(),
                }),
                Op::ChkContinue { h, snap, picks } if picks.len() > 1 => Some(Op::ChkContinue {
                    h: *h,
                    snap: *snap,
                    picks: picks[..picks.len() / 2].to_vec(),
                }),
                Op::Rollback { h, k } if *k > 1 => Some(Op::Rollback { h: *h, k: 1 }),
                _ => None,
            };
            if let Some(s) = simpler {
                let mut c = best.clone();
                c.tasks[which][i] = s;
                attempt!(c);
            }
        }
    }
    // 6. world simplifications that keep token ids stable: default slices off, default limits
    if best.world.slices.is_none() || best.world.slices.as_ref().map(|s| !s.is_empty()).unwrap_or(false) {
        if best.mirrors.is_empty() {
            let mut c = best.clone();
            c.world.slices = Some(vec![]);
            attempt!(c);
        }
    }
    if !best.world.limits.is_default() {
        let mut c = best.clone();
        c.world.limits = crate::world::LimitsSpec::default();
        attempt!(c);
    }
    if !best.world.fresh_rebuild {
        let mut c = best.clone();
        c.world.fresh_rebuild = true;
        attempt!(c);
    }
    (best, bestv, tried)
}
