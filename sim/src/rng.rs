//! One integer decides everything: SplitMix64 seeding + xoshiro256** streams.
//! Nothing in here reads a clock or any OS randomness.

#[derive(Clone, Debug)]
pub struct Rng {
    s: [u64; 4],
}

pub fn splitmix(x: &mut u64) -> u64 {
    *x = x.wrapping_add(0x9E37_79B9_7F4A_7C15);
    let mut z = *x;
    z = (z ^ (z >> 30)).wrapping_mul(0xBF58_476D_1CE4_E5B9);
    z = (z ^ (z >> 27)).wrapping_mul(0x94D0_49BB_1331_11EB);
    z ^ (z >> 31)
}

/// Stable string hash (FNV-1a 64) – used to derive streams from names.
pub fn fnv(s: &str) -> u64 {
    let mut h: u64 = 0xcbf2_9ce4_8422_2325;
    for b in s.as_bytes() {
        h ^= *b as u64;
        h = h.wrapping_mul(0x1000_0000_01b3);
    }
    h
}

pub fn fnv_bytes(h0: u64, s: &[u8]) -> u64 {
    let mut h = h0 ^ 0xcbf2_9ce4_8422_2325;
    for b in s {
        h ^= *b as u64;
        h = h.wrapping_mul(0x1000_0000_01b3);
    }
    h
}

pub fn mix(a: u64, b: u64) -> u64 {
    let mut x = a ^ b.rotate_left(32) ^ 0x5851_F42D_4C95_7F2D;
    let r = splitmix(&mut x);
    r ^ splitmix(&mut x)
}

impl Rng {
    pub fn new(seed: u64) -> Self {
        let mut x = seed;
        let s = [
            splitmix(&mut x),
            splitmix(&mut x),
            splitmix(&mut x),
            splitmix(&mut x),
        ];
        Rng { s }
    }

    /// Independent stream for a named purpose.
    pub fn fork(&self, name: &str) -> Rng {
        Rng::new(mix(self.s[0] ^ self.s[2], fnv(name)))
    }

    pub fn next_u64(&mut self) -> u64 {
        let result = self.s[1].wrapping_mul(5).rotate_left(7).wrapping_mul(9);
        let t = self.s[1] << 17;
        self.s[2] ^= self.s[0];
        self.s[3] ^= self.s[1];
        self.s[1] ^= self.s[2];
        self.s[0] ^= self.s[3];
        self.s[2] ^= t;
        self.s[3] = self.s[3].rotate_left(45);
        result
    }

    /// uniform in 0..n (n > 0)
    pub fn below(&mut self, n: usize) -> usize {
        debug_assert!(n > 0);
        ((self.next_u64() >> 11) % (n as u64)) as usize
    }

    /// uniform in lo..=hi
    pub fn range(&mut self, lo: usize, hi: usize) -> usize {
        lo + self.below(hi - lo + 1)
    }

    pub fn chance(&mut self, p: f64) -> bool {
        ((self.next_u64() >> 11) as f64) < p * ((1u64 << 53) as f64)
    }

    pub fn pick<'a, T>(&mut self, xs: &'a [T]) -> &'a T {
        &xs[self.below(xs.len())]
    }

    /// log-uniform integer in lo..=hi (lo >= 1)
    pub fn log_uniform(&mut self, lo: u64, hi: u64) -> u64 {
        let l = (lo as f64).ln();
        let h = (hi as f64).ln();
        let u = ((self.next_u64() >> 11) as f64) / ((1u64 << 53) as f64);
        let v = (l + u * (h - l)).exp().round() as u64;
        v.clamp(lo, hi)
    }

    /// weighted choice; returns index
    pub fn weighted(&mut self, w: &[u32]) -> usize {
        let tot: u64 = w.iter().map(|x| *x as u64).sum();
        debug_assert!(tot > 0);
        let mut r = (self.next_u64() >> 11) % tot;
        for (i, x) in w.iter().enumerate() {
            if r < *x as u64 {
                return i;
            }
            r -= *x as u64;
        }
        w.len() - 1
    }

    pub fn shuffle<T>(&mut self, xs: &mut [T]) {
        for i in (1..xs.len()).rev() {
            let j = self.below(i + 1);
            xs.swap(i, j);
        }
    }
}
