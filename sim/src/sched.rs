//! Baton scheduler: simulated tasks are real OS threads, but exactly one runs at a time.
//! The baton changes hands only at the guarded hooks inside llguidance
//! (`verif_seam::sched_point` / `before_lock` / rayon shim) and at operation boundaries,
//! and the next holder is chosen by the run's PRNG (or by an explicit schedule on replay).
//!
//! No sleeps, no timeouts, no parallelism inside one run.

use std::cell::RefCell;
use std::sync::{Arc, Condvar, Mutex};

use serde::{Deserialize, Serialize};

use crate::rng::Rng;

#[derive(Clone, Debug, Serialize, Deserialize, PartialEq)]
#[serde(rename_all = "lowercase")]
pub enum Strategy {
    /// uniformly random runnable task at every scheduling point
    Uniform,
    /// stay on the current task, switch with probability 1/period
    Sticky,
    /// PCT-style: random priorities, `depth` priority change points
    Pct,
    /// run each task to completion in id order (baseline, no preemption)
    Serial,
}

#[derive(Clone, Debug, Serialize, Deserialize)]
pub struct ScheduleSpec {
    pub strategy: Strategy,
    pub seed: u64,
    #[serde(default)]
    pub sticky_period: u32,
    #[serde(default)]
    pub pct_depth: u32,
    /// If present, decision i takes explicit[i] (falling back to the lowest runnable id
    /// when that task is not runnable); after the list is exhausted the strategy continues.
    #[serde(default, skip_serializing_if = "Option::is_none")]
    pub explicit: Option<Vec<u32>>,
    /// with `serial`: at these decision indices the current task is preempted (the next runnable
    /// task in id order runs instead) - used to enumerate all single-preemption schedules
    #[serde(default, skip_serializing_if = "Vec::is_empty")]
    pub preempt_at: Vec<u64>,
}

#[derive(Clone, Copy, PartialEq, Eq, Debug)]
enum TState {
    Runnable,
    /// found a lock busy; not eligible until some other task has run
    Blocked,
    /// waiting for `n` child tasks (rayon shim for_each)
    WaitChildren(usize),
    /// simulated wait on an external flag (async callback)
    Done,
}

struct Task {
    st: TState,
    parent: Option<usize>,
    prio: u64,
}

#[derive(Default, Clone, Debug, Serialize)]
pub struct SchedStats {
    pub sched_points: u64,
    pub decisions: u64,
    pub switches: u64,
    pub blocked_on_lock: u64,
    pub switches_in_critical_section: u64,
    pub tasks_spawned: u64,
    pub par_batches: u64,
    pub schedule_hash: u64,
}

struct Inner {
    tasks: Vec<Task>,
    current: Option<usize>,
    rng: Rng,
    spec: ScheduleSpec,
    pos: usize,
    trace: Vec<u32>,
    stats: SchedStats,
    abort: bool,
    deadlock: Option<String>,
    pct_changes: Vec<u64>,
    max_points: u64,
    stall: u32,
}

pub struct Sched {
    inner: Mutex<Inner>,
    cv: Condvar,
}

thread_local! {
    static CUR: RefCell<Option<(Arc<Sched>, usize)>> = const { RefCell::new(None) };
}

fn cur() -> Option<(Arc<Sched>, usize)> {
    CUR.with(|c| c.borrow().clone())
}

/// number of context switches so far in the simulation this thread belongs to (0 outside)
pub fn switches_now() -> u64 {
    cur().map(|(s, _)| s.switches()).unwrap_or(0)
}

pub fn in_sim() -> bool {
    CUR.with(|c| c.borrow().is_some())
}

const IN_CS_SITES: &[&str] = &["regexvec.transition_inner", "parser.advance_parser"];

impl Sched {
    pub fn new(spec: ScheduleSpec, expected_points: u64) -> Arc<Sched> {
        let mut rng = Rng::new(spec.seed);
        let mut pct_changes = vec![];
        if spec.strategy == Strategy::Pct {
            for _ in 0..spec.pct_depth {
                pct_changes.push(1 + (rng.next_u64() % expected_points.max(1)));
            }
            pct_changes.sort();
        }
        Arc::new(Sched {
            inner: Mutex::new(Inner {
                tasks: vec![],
                current: None,
                rng,
                spec,
                pos: 0,
                trace: vec![],
                stats: SchedStats::default(),
                abort: false,
                deadlock: None,
                pct_changes,
                max_points: 50_000_000,
                stall: 0,
            }),
            cv: Condvar::new(),
        })
    }

    fn add_task(inner: &mut Inner, parent: Option<usize>) -> usize {
        let prio = inner.rng.next_u64() | (1 << 63);
        inner.tasks.push(Task {
            st: TState::Runnable,
            parent,
            prio,
        });
        inner.stats.tasks_spawned += 1;
        inner.tasks.len() - 1
    }

    /// choose the next task to run; `me` is the caller (may be not runnable any more)
    fn choose(inner: &mut Inner, me: Option<usize>, site: &'static str) -> Option<usize> {
        let runnable: Vec<usize> = inner
            .tasks
            .iter()
            .enumerate()
            .filter(|(_, t)| t.st == TState::Runnable)
            .map(|(i, _)| i)
            .collect();
        if runnable.is_empty() {
            return None;
        }
        if runnable.len() == 1 {
            return Some(runnable[0]);
        }
        inner.stats.decisions += 1;
        let me_runnable = me.map(|m| runnable.contains(&m)).unwrap_or(false);
        let choice = if let Some(e) = inner
            .spec
            .explicit
            .as_ref()
            .and_then(|e| e.get(inner.pos).copied())
        {
            let e = e as usize;
            if runnable.contains(&e) {
                e
            } else {
                runnable[0]
            }
        } else {
            match inner.spec.strategy {
                Strategy::Uniform => runnable[inner.rng.below(runnable.len())],
                Strategy::Sticky => {
                    let p = inner.spec.sticky_period.max(1) as usize;
                    if me_runnable && inner.rng.below(p) != 0 {
                        me.unwrap()
                    } else {
                        runnable[inner.rng.below(runnable.len())]
                    }
                }
                Strategy::Serial => {
                    let d = inner.stats.decisions - 1;
                    if me_runnable && inner.spec.preempt_at.contains(&d) {
                        // forced preemption: the next runnable task after me (round robin)
                        let m = me.unwrap();
                        *runnable.iter().find(|t| **t > m).unwrap_or(&runnable[0])
                    } else if me_runnable {
                        me.unwrap()
                    } else {
                        runnable[0]
                    }
                }
                Strategy::Pct => {
                    let pts = inner.stats.sched_points;
                    while let Some(&c) = inner.pct_changes.first() {
                        if c <= pts {
                            inner.pct_changes.remove(0);
                            // demote the currently highest-priority runnable task
                            let top = *runnable
                                .iter()
                                .max_by_key(|&&i| inner.tasks[i].prio)
                                .unwrap();
                            inner.tasks[top].prio = inner.pct_changes.len() as u64;
                        } else {
                            break;
                        }
                    }
                    *runnable
                        .iter()
                        .max_by_key(|&&i| inner.tasks[i].prio)
                        .unwrap()
                }
            }
        };
        inner.pos += 1;
        inner.trace.push(choice as u32);
        inner.stats.schedule_hash = crate::rng::mix(inner.stats.schedule_hash, choice as u64 + 1);
        if Some(choice) != me {
            inner.stats.switches += 1;
            if IN_CS_SITES.contains(&site) {
                inner.stats.switches_in_critical_section += 1;
            }
        }
        Some(choice)
    }

    fn wait_for_turn<'a>(
        &'a self,
        mut g: std::sync::MutexGuard<'a, Inner>,
        me: usize,
    ) -> std::sync::MutexGuard<'a, Inner> {
        while g.current != Some(me) {
            g = self.cv.wait(g).unwrap();
        }
        g
    }

    /// progress by `who`: tasks blocked on a lock become eligible again
    fn unblock_others(inner: &mut Inner, who: usize) {
        for (i, t) in inner.tasks.iter_mut().enumerate() {
            if i != who && t.st == TState::Blocked {
                t.st = TState::Runnable;
            }
        }
    }

    /// returns true if the simulation is deadlocked (nobody can make progress)
    fn yield_point(self: &Arc<Self>, me: usize, site: &'static str, blocked: bool) -> bool {
        let mut g = self.inner.lock().unwrap();
        if g.deadlock.is_some() {
            return true;
        }
        g.stats.sched_points += 1;
        if g.stats.sched_points > g.max_points {
            g.abort = true;
        }
        if blocked {
            g.stats.blocked_on_lock += 1;
            g.tasks[me].st = TState::Blocked;
        } else {
            g.stall = 0;
            Self::unblock_others(&mut g, me);
        }
        let mut next = Self::choose(&mut g, Some(me), site);
        if next.is_none() && g.stall < 10_000 {
            // everybody is marked blocked: the marks may be stale, let everybody retry
            g.stall += 1;
            for t in g.tasks.iter_mut() {
                if t.st == TState::Blocked {
                    t.st = TState::Runnable;
                }
            }
            next = Self::choose(&mut g, Some(me), site);
        }
        match next {
            Some(n) if n == me => {}
            Some(n) => {
                g.current = Some(n);
                self.cv.notify_all();
                let g2 = self.wait_for_turn(g, me);
                drop(g2);
            }
            None => {
                // nobody can run: every task is blocked on a lock or waiting -> deadlock.
                // Let the caller continue (it will spin on try_lock); flag it.
                g.deadlock = Some(format!("no runnable task at {site}"));
                g.abort = true;
                g.tasks[me].st = TState::Runnable;
                return true;
            }
        }
        if blocked {
            let mut g = self.inner.lock().unwrap();
            if g.tasks[me].st == TState::Blocked {
                g.tasks[me].st = TState::Runnable;
            }
            if g.deadlock.is_some() {
                return true;
            }
        }
        false
    }

    fn finish_task(self: &Arc<Self>, me: usize) {
        let mut g = self.inner.lock().unwrap();
        g.tasks[me].st = TState::Done;
        Self::unblock_others(&mut g, me);
        if let Some(p) = g.tasks[me].parent {
            if let TState::WaitChildren(n) = g.tasks[p].st {
                g.tasks[p].st = if n <= 1 {
                    TState::Runnable
                } else {
                    TState::WaitChildren(n - 1)
                };
            }
        }
        let next = Self::choose(&mut g, None, "task_end");
        g.current = next;
        self.cv.notify_all();
    }

    pub fn aborted(&self) -> bool {
        self.inner.lock().unwrap().abort
    }

    pub fn set_abort(&self) {
        self.inner.lock().unwrap().abort = true;
    }

    pub fn deadlock(&self) -> Option<String> {
        self.inner.lock().unwrap().deadlock.clone()
    }

    pub fn stats(&self) -> SchedStats {
        self.inner.lock().unwrap().stats.clone()
    }

    pub fn switches(&self) -> u64 {
        self.inner.lock().unwrap().stats.switches
    }

    pub fn trace(&self) -> Vec<u32> {
        self.inner.lock().unwrap().trace.clone()
    }

    /// Run `bodies` as simulated tasks (task i = bodies[i]) until all of them, and everything
    /// they spawned, are done. Called from the (non-simulated) coordinator thread.
    pub fn run_tasks(self: &Arc<Self>, bodies: Vec<Box<dyn FnOnce() + Send + '_>>) {
        let n = bodies.len();
        {
            let mut g = self.inner.lock().unwrap();
            for _ in 0..n {
                Self::add_task(&mut g, None);
            }
        }
        std::thread::scope(|s| {
            for (i, body) in bodies.into_iter().enumerate() {
                let me = self.clone();
                std::thread::Builder::new()
                    .stack_size(16 << 20)
                    .spawn_scoped(s, move || {
                        CUR.with(|c| *c.borrow_mut() = Some((me.clone(), i)));
                        {
                            let g = me.inner.lock().unwrap();
                            drop(me.wait_for_turn(g, i));
                        }
                        body();
                        me.finish_task(i);
                        CUR.with(|c| *c.borrow_mut() = None);
                    })
                    .unwrap();
            }
            // hand the baton to the first task
            {
                let mut g = self.inner.lock().unwrap();
                let first = Self::choose(&mut g, None, "start");
                g.current = first;
                self.cv.notify_all();
            }
            // wait for all (including dynamically spawned) tasks
            let mut g = self.inner.lock().unwrap();
            loop {
                let all_done = g.tasks.iter().all(|t| t.st == TState::Done);
                if all_done {
                    break;
                }
                g = self.cv.wait(g).unwrap();
            }
        });
        // dynamically spawned 'static tasks are joined through DETACHED below
        join_detached();
    }
}

// ------------------------------------------------------------------ detached (rayon::spawn) tasks

static DETACHED: Mutex<Vec<std::thread::JoinHandle<()>>> = Mutex::new(Vec::new());

fn join_detached() {
    let hs: Vec<_> = std::mem::take(&mut *DETACHED.lock().unwrap());
    for h in hs {
        let _ = h.join();
    }
}

// ------------------------------------------------------------------ hooks (installed once per process)

fn hook_sched_point(site: &'static str) {
    if NO_YIELD.with(|n| n.get()) {
        // oracle reads of the shared lexer: not part of the system under test, no decision here
        // (a busy lock still goes through hook_blocked and yields)
        return;
    }
    if let Some((s, me)) = cur() {
        s.yield_point(me, site, false);
    }
}

fn hook_blocked(site: &'static str) {
    if let Some((s, me)) = cur() {
        if s.yield_point(me, site, true) {
            // unwinds out of the lock acquisition; reported as a deadlock violation by the executor
            panic!("simulated deadlock at {site}");
        }
    } else {
        // not simulated: real contention, let the OS scheduler decide
        std::thread::yield_now();
    }
}

thread_local! {
    /// countdown for the fuel fault: Some(k) -> the k-th call (0-based) to buggify("regexvec.fuel") fires
    pub static FUEL_FAULT: std::cell::Cell<Option<u32>> = const { std::cell::Cell::new(None) };
    pub static FUEL_FAULT_FIRED: std::cell::Cell<u32> = const { std::cell::Cell::new(0) };
    pub static TRANSITIONS: std::cell::Cell<u64> = const { std::cell::Cell::new(0) };
    pub static NO_YIELD: std::cell::Cell<bool> = const { std::cell::Cell::new(false) };
}

fn hook_buggify(site: &'static str) -> bool {
    if site == "regexvec.fuel" {
        TRANSITIONS.with(|t| t.set(t.get() + 1));
        FUEL_FAULT.with(|f| match f.get() {
            Some(0) => {
                f.set(None);
                FUEL_FAULT_FIRED.with(|x| x.set(x.get() + 1));
                true
            }
            Some(k) => {
                f.set(Some(k - 1));
                false
            }
            None => false,
        })
    } else {
        false
    }
}

fn hook_spawn(job: Box<dyn FnOnce() + Send + 'static>) {
    if let Some((s, me)) = cur() {
        let id = {
            let mut g = s.inner.lock().unwrap();
            // detached: no parent to wake
            let _ = me;
            Sched::add_task(&mut g, None)
        };
        let s2 = s.clone();
        let h = std::thread::Builder::new()
            .stack_size(16 << 20)
            .spawn(move || {
                CUR.with(|c| *c.borrow_mut() = Some((s2.clone(), id)));
                {
                    let g = s2.inner.lock().unwrap();
                    drop(s2.wait_for_turn(g, id));
                }
                job();
                s2.finish_task(id);
                CUR.with(|c| *c.borrow_mut() = None);
            })
            .unwrap();
        DETACHED.lock().unwrap().push(h);
        // spawning is a scheduling point: the new task may run first
        s.yield_point(me, "rayon.spawn", false);
    } else {
        job();
    }
}

fn hook_run_all<'a>(jobs: Vec<Box<dyn FnOnce() + Send + 'a>>) {
    if let Some((s, me)) = cur() {
        let n = jobs.len();
        if n == 0 {
            return;
        }
        let ids: Vec<usize> = {
            let mut g = s.inner.lock().unwrap();
            g.stats.par_batches += 1;
            let ids = (0..n).map(|_| Sched::add_task(&mut g, Some(me))).collect();
            g.tasks[me].st = TState::WaitChildren(n);
            ids
        };
        std::thread::scope(|sc| {
            for (job, id) in jobs.into_iter().zip(ids.into_iter()) {
                let s2 = s.clone();
                std::thread::Builder::new()
                    .stack_size(16 << 20)
                    .spawn_scoped(sc, move || {
                        CUR.with(|c| *c.borrow_mut() = Some((s2.clone(), id)));
                        {
                            let g = s2.inner.lock().unwrap();
                            drop(s2.wait_for_turn(g, id));
                        }
                        job();
                        s2.finish_task(id);
                        CUR.with(|c| *c.borrow_mut() = None);
                    })
                    .unwrap();
            }
            // hand over the baton and wait until all children are done and we are chosen again
            let mut g = s.inner.lock().unwrap();
            let next = Sched::choose(&mut g, Some(me), "rayon.for_each");
            g.current = next;
            s.cv.notify_all();
            drop(s.wait_for_turn(g, me));
        });
    } else {
        for j in jobs {
            j();
        }
    }
}

/// Simulated wait for an external condition (e.g. the async completion callback):
/// the task yields until `cond()` holds. Returns false if the simulation was aborted.
pub fn wait_until(cond: &dyn Fn() -> bool) -> bool {
    if let Some((s, me)) = cur() {
        loop {
            if cond() {
                return true;
            }
            if s.aborted() {
                return false;
            }
            if s.yield_point(me, "wait_until", true) {
                return false;
            }
        }
    } else {
        // outside the simulator the condition is expected to be satisfied by real threads
        let mut spins = 0u64;
        while !cond() {
            std::thread::yield_now();
            spins += 1;
            if spins > 2_000_000_000 {
                return false;
            }
        }
        true
    }
}

/// explicit scheduling point between operations
pub fn op_boundary() {
    hook_sched_point("op_boundary");
}

#[cfg(llguidance_verif)]
pub fn install_hooks() {
    use llguidance::verif_seam::{install, Hooks};
    let _ = install(Hooks {
        sched_point: hook_sched_point,
        blocked: hook_blocked,
        buggify: hook_buggify,
        spawn: hook_spawn,
        run_all: hook_run_all,
    });
}

#[cfg(not(llguidance_verif))]
pub fn install_hooks() {
    // plain build: no hooks exist in llguidance; keep the functions referenced
    let _ = (
        hook_sched_point as fn(&'static str),
        hook_blocked as fn(&'static str),
        hook_buggify as fn(&'static str) -> bool,
        hook_spawn as fn(Box<dyn FnOnce() + Send + 'static>),
    );
    let _: for<'a> fn(Vec<Box<dyn FnOnce() + Send + 'a>>) = hook_run_all;
}

pub const HOOKS_COMPILED: bool = cfg!(llguidance_verif);
