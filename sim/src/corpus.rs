//! Hand-written grammar corpus (core fragment: no max_tokens=, stop=, temperature=, backtracking).
//! Grammar text is data: it is copied into every scenario / replay file.

use serde::{Deserialize, Serialize};

#[derive(Clone, Copy, Debug, PartialEq, Eq, Serialize, Deserialize)]
#[serde(rename_all = "lowercase")]
pub enum GKind {
    Lark,
    Regex,
    Json,
}

pub struct Entry {
    pub id: &'static str,
    pub kind: GKind,
    pub text: &'static str,
    /// space separated tags:
    ///  prod   - productive by construction / manual check (C03)
    ///  tokref - uses special-token references (not comparable with the byte replica)
    ///  ff     - has long forced stretches (C13)
    ///  str    - JSON-like strings (slicer, C10)
    ///  heavy  - adversarial for limits (C20)
    ///  stopc  - completes (NoExtension) after finite output
    ///  capt   - rules with [capture] (captures are an observable of C11 / C12 / C14)
    ///  stopl  - lexemes with stop= / suffix= (outside the core fragment: only the C11 sub-family
    ///           cache_stop_lexeme uses them)
    pub tags: &'static str,
}

impl Entry {
    pub fn has(&self, tag: &str) -> bool {
        self.tags.split(' ').any(|t| t == tag)
    }
}

macro_rules! g {
    ($id:expr, $kind:ident, $tags:expr, $text:expr) => {
        Entry {
            id: $id,
            kind: GKind::$kind,
            text: $text,
            tags: $tags,
        }
    };
}

pub static CORPUS: &[Entry] = &[
    // ---------------------------------------------------------------- Lark
    g!("ab_x_cd", Lark, "prod stopc", r##"start: "a" X "c" | "b" X "d"
X: /x+/
"##),
    g!("arith", Lark, "prod", r##"start: expr
expr: term (("+"|"-") term)*
term: factor (("*"|"/") factor)*
factor: NUMBER | "(" expr ")"
NUMBER: /[0-9]+/
"##),
    g!("arith_ws", Lark, "prod", r##"start: expr
expr: term (("+"|"-") term)*
term: factor (("*"|"/") factor)*
factor: NUMBER | "(" expr ")" | "-" factor
NUMBER: /[0-9]+(\.[0-9]+)?/
%ignore /[ \t\n]+/
"##),
    g!("kw_ident", Lark, "prod", r##"start: stmt+
stmt: "let" IDENT "=" value ";" | "if" IDENT "then" stmt | "print" value ";"
value: IDENT | NUMBER | STRING
IDENT: /[a-z][a-z0-9_]*/
NUMBER: /[0-9]+/
STRING: /"[^"\n]*"/
%ignore /[ \n]+/
"##),
    g!("nullable", Lark, "prod stopc", r##"start: a b c "."
a: "a"*
b: "b"?
c: (a b)? "c"?
"##),
    g!("nullable2", Lark, "prod", r##"start: item*
item: opt opt "x" | "y" opt
opt: | "o" | "oo"
"##),
    g!("left_rec", Lark, "prod", r##"start: list
list: list "," ITEM | ITEM
ITEM: /[a-c]{1,3}/
"##),
    g!("right_rec", Lark, "prod heavy", r##"start: list
list: ITEM "," list | ITEM
ITEM: /[a-c]{1,3}/
"##),
    g!("ambig", Lark, "prod heavy", r##"start: e
e: e e | "a" | "(" e ")"
"##),
    g!("and_not_lines", Lark, "prod", r##"start: LINES "$"
LINES: /[a-z \n]*/ & ~/(?s:.*)\n\n(?s:.*)/
"##),
    g!("ident_not_kw", Lark, "prod", r##"start: (ID " ")* "."
ID: /[a-z]+/ & ~/if|else|for/
"##),
    g!("id3_not_kw", Lark, "prod", r##"start: ID3 ("," ID3)*
ID3: /[a-z]{1,3}/ & ~/if|for|fo/
"##),
    g!("and_not_prefix_dead", Lark, "prod", r##"start: W ("," W)* "."
W: /[a-z]{2}/ & ~/a[a-z]/
"##),
    g!("and_not_digits", Lark, "prod", r##"start: (N " ")+ "end"
N: /[0-9]{1,2}/ & ~/1[0-9]?/ & ~/[0-9]7/
"##),
    g!("and_suffix_required", Lark, "prod", r##"start: "<" T ">"
T: /[a-c]{1,4}/ & /(.|\n)*c/
"##),
    g!("single_byte_after_greedy", Lark, "prod", r##"start: call+
call: NAME "(" args? ")" ";"
args: arg ("," arg)*
arg: NAME | NUM | call_noterm
call_noterm: NAME "(" args? ")"
NAME: /[a-z]+/
NUM: /[0-9]+/
"##),
    g!("json_in_lark", Lark, "prod str", r##"start: TEXT | fun_call
TEXT: /[^{](.|\n)*/
fun_call: %json {
  "type": "object",
  "properties": {
    "name": { "const": "get_weather" },
    "parameters": {
      "type": "object",
      "properties": { "city": { "type": "string" } },
      "required": ["city"],
      "additionalProperties": false
    }
  },
  "required": ["name", "parameters"],
  "additionalProperties": false
}
"##),
    g!("sql_like", Lark, "prod ff", r##"start: "SELECT " cols " FROM " TABLE (" WHERE " cond)? ";"
cols: "*" | COL (", " COL)*
cond: COL " = " VAL (" AND " COL " = " VAL)*
COL: /[a-z_]{1,8}/
TABLE: /[a-z_]{1,8}/
VAL: /[0-9]{1,4}/ | /'[a-z ]{0,6}'/
"##),
    g!("forced_chain", Lark, "prod ff stopc", r##"start: "BEGIN:" KIND "\n" body "END\n"
KIND: "alpha" | "beta" | "alphabet"
body: ("item=" VALUE ";\n"){1,3}
VALUE: /[0-9]{1,3}/
"##),
    g!("lazy_until", Lark, "prod", r##"start: head "tail" /[0-9]+/
head[lazy]: /[a-z ]*;/
"##),
    g!("lazy_vs_greedy", Lark, "prod str lazyg", r##"start: BODY | stopped "!"
BODY: /[a-z ;]*/
stopped[lazy]: /[a-z ]*;/
"##),
    g!("lazy_vs_greedy_str", Lark, "prod str lazyg", r##"start: "\"" (TXT | cut "]") "\""
TXT: /[^"\\\x00-\x1F\x7F]*/
cut[lazy]: /[^"\\\x00-\x1F\x7F]*\[/
"##),
    g!("lazy_vs_greedy_any", Lark, "prod str lazyg", r##"start: TXT | stopped "!" /[0-9]/
TXT: /[^"\\\x00-\x1F\x7F]*/
stopped[lazy]: /[^"\\\x00-\x1F\x7F]*;/
"##),
    g!("lazy_vs_greedy_words", Lark, "prod str lazyg", r##"start: WORDS | upto "=" /[0-9]+/
WORDS: /[a-zA-Z0-9_ =]*/
upto[lazy]: /[a-zA-Z0-9_ ]*=/
"##),
    g!("stopl_done", Lark, "stopl", r##"start: body "done"
body[stop=";"]: /[a-z]*/
"##),
    g!("stopl_eos", Lark, "stopl", r##"start: "x" body "!"
body[stop=""]: /[a-z]*/
"##),
    g!("stopl_eos_tail", Lark, "stopl", r##"start: body tail
body[stop=""]: /[a-z ]*/
tail: "ok" | "okay" | /[0-9]+/ "."
"##),
    g!("stopl_two", Lark, "stopl", r##"start: "q:" ans tail
ans[stop="."]: /[a-z ]*/
tail: "ok" | "okay" | /[0-9]+/ "!"
"##),
    g!("stopl_suffix", Lark, "stopl", r##"start: name val
name[suffix=":"]: /[a-z]+/
val: " yes" | " yep" | /[0-9]{1,3}/
"##),
    g!("stopl_capture", Lark, "stopl", r##"start: a b "."
a[capture, stop="!"]: /[a-z]*/
b[capture]: "fin" | "final"
"##),
    g!("capt_alt", Lark, "prod capt", r##"start: one "-" (two | three)
one[capture]: /[a-z]+/
two[capture]: /[0-9]+/ ";"
three[capture]: /[A-Z]+/ ";"
"##),
    g!("capt_kv", Lark, "prod capt", r##"start: pair ("," pair)* "."
pair[capture]: key "=" val
key[capture]: /[a-z]+/
val[capture="v"]: /[0-9]+/ | STR
STR: /"[a-z ]*"/
"##),
    g!("capt_list", Lark, "prod capt", r##"start: "[" (item ";")+ "]" opt
item[capture="__LIST_APPEND:items"]: /[a-z]{1,3}/ | num
num[capture]: /[0-9]/ /[0-9]/?
opt[capture]: "!"?
"##),
    g!("capt_nested", Lark, "prod capt str", r##"start: obj
obj[capture]: "{" (member ("," member)*)? "}"
member[capture]: name ":" (STR | obj)
name[capture]: /[a-z]+/
STR: /"[^"\\\x00-\x1F\x7F]*"/
"##),
    g!("tool_call_lazy", Lark, "prod", r##"start: ( f_foo | f_bar )* f_end
f_end: TEXT
TEXT: /[a-z \n]*/
f_foo_hd[lazy]: TEXT "<function"
f_foo: f_foo_hd "=foo>" /[a-z]+/ "</function>"
f_bar_hd[lazy]: TEXT "<function"
f_bar: f_bar_hd "=bar>" /[0-9]+/ "</function>"
"##),
    g!("tokref_named", Lark, "prod tokref", r##"start: "a" <|tool|> /[a-z]+/ <|end|> "z"?
"##),
    g!("tokref_range", Lark, "prod tokref", r##"start: /[a-z]{1,4}/ <[@S0@-@S1@]> ("x" | <[@S2@]>) "!"
"##),
    g!("tokref_three_alts", Lark, "prod tokref", r##"start: "a" ( <|tool|> | <|end|> | <|pad|> ) "b" /[0-9]+/
"##),
    g!("tokref_five_alts", Lark, "prod tokref", r##"start: /[xy]/ ( <[@S0@]> | <[@S1@]> | <[@S2@]> | <[@S0@]> "q" | <[@S1@]> "r" ) "."
"##),
    g!("tokref_think", Lark, "prod tokref", r##"start: <|tool|> "\n" /(.|\n)*/ <|end|> answer
answer: "yes" | "no" | "maybe"
"##),
    g!("tokref_neg", Lark, "prod tokref", r##"start: "q" <[^0-@S1@,@S3@]> "w"
"##),
    g!("utf8_words", Lark, "prod", r##"start: WORD (" " WORD)* "。"
WORD: /[α-ω]+/ | /日本語?/ | /[a-z]+/ | "né" | "naïve"
"##),
    g!("repeat_rule", Lark, "prod stopc", r##"start: item{2,5} "."
item: "ab" | "a" | "abc"
"##),
    g!("substring", Lark, "prod", r##"start: "[" S "]"
S: %regex { "substring_words": "the quick brown fox jumps over the lazy dog" }
"##),
    g!("nested_parens", Lark, "prod heavy", r##"start: p
p: "(" p ")" p | "[" p "]" p |
"##),
    g!("ignore_comments", Lark, "prod", r##"start: pair ("," pair)*
pair: KEY ":" VAL
KEY: /[a-z]+/
VAL: /[0-9]+/ | /"[a-z]*"/
%ignore /[ \t]+/
%ignore /#[^\n]*\n/
"##),
    g!("dangling_else", Lark, "prod heavy", r##"start: stmt
stmt: "if " COND " then " stmt | "if " COND " then " stmt " else " stmt | "x" | "y"
COND: /[a-c]/
"##),
    g!("hex_colors", Lark, "prod stopc", r##"start: "#" HEX HEX HEX (HEX HEX HEX)?
HEX: /[0-9a-f]/
"##),
    g!("csv", Lark, "prod", r##"start: row ("\n" row)* "\n"?
row: FIELD ("," FIELD)*
FIELD: /[a-z0-9]*/ | /"([^"\n]|"")*"/
"##),
    g!("param_perm", Lark, "prod stopc", r##"start    :  perm::0x0
perm::_  :  ""                       %if is_ones([0:3])
         |  "a" perm::set_bit(0)     %if bit_clear(0)
         |  "b" perm::set_bit(1)     %if bit_clear(1)
         |  "c" perm::set_bit(2)     %if bit_clear(2)
"##),
    g!("param_unique_list", Lark, "prod", r##"start    :  "[" item::0x0 "]"
item::_  :  ""
         |  WORD0 sep::set_bit(0)    %if bit_clear(0)
         |  WORD1 sep::set_bit(1)    %if bit_clear(1)
         |  WORD2 sep::set_bit(2)    %if bit_clear(2)
sep::_   :  ""
         |  ", " item::_             %if not(is_ones([0:3]))
WORD0: "red"
WORD1: "reddish"
WORD2: "green"
"##),
    g!("nested_blocks", Lark, "prod", r##"start: block
block: "{" (stmt ";")* "}"
stmt: NAME "=" NUM | "if" "(" NAME ")" block | block
NAME: /[a-z]+/
NUM: /[0-9]+/
%ignore /[ \n]+/
"##),
    g!("bytes_mode_str", Lark, "bytesmode str", r##"%llguidance { "allow_invalid_utf8": true }
start: /"[^"\\\x00-\x1F\x7F\xFF]{0,12}"/
"##),
    g!("bytes_mode_obj", Lark, "bytesmode str", r##"%llguidance { "allow_invalid_utf8": true }
start: "{" pair ("," pair)* "}"
pair: KEY ":" VAL
KEY: /"[a-z]{1,6}"/
VAL: /"[^"\\\x00-\x1F\x7F\xFF]{0,9}"/ | /"[^"\\\x00-\x1F\x7F\xFF]{11,31}"/ | /[0-9]{1,4}/
"##),
    // temperature= (outside the core fragment; drawn only by the sampling-loop families of C11 / C17)
    g!("temp_two", Lark, "prod temp", r##"start: a ":" b "."
a[temperature=0.3]: /[a-z]{1,8}/
b[temperature=1.25]: /[0-9]{1,5}/
"##),
    g!("temp_list", Lark, "prod temp", r##"start: item ("," item)* ";"
item: word | num
word[temperature=0.7]: /[a-z]+/
num[temperature=0.05]: /[0-9]+/ "!"
"##),
    g!("temp_json", Lark, "prod temp", r##"start: "cold:" cold " hot:" hot
cold[temperature=0.1]: %json {"type":"object","properties":{"a":{"type":"integer"}},"required":["a"],"additionalProperties":false}
hot[temperature=1.5]: /[a-z ]{1,12}/ "."
"##),
    g!("three_classes", Lark, "prod str", r##"start: item (" " item)*
item: /[a-z]+/ | /[0-9]+/ | /[A-Z]{1,2}/
"##),
    g!("three_classes_b", Lark, "prod str", r##"start: (LOW | NUM | UP | WS)+ "."
LOW: /[a-z]{1,12}/
NUM: /[0-9]+/
UP: /[A-Z]{1,5}/
WS: /[ \t\n]+/
"##),
    g!("string_escapes", Lark, "prod str", r##"start: STR ("+" STR)*
STR: /"([^"\\\x00-\x1F]|\\(["\\nrt]|u[0-9a-f]{4}))*"/
"##),
    // ---------------------------------------------------------------- Regex
    g!("rx_email", Regex, "prod", r##"[a-z]+@[a-z]+\.(com|org|net)"##),
    g!("rx_alt_prefix", Regex, "prod", r##"(ab|abc|abcd)+x"##),
    g!("rx_phone", Regex, "prod stopc", r##"\d{3}-\d{4}"##),
    g!("rx_counts", Regex, "prod", r##"a{2,5}b{0,3}c+"##),
    g!("rx_ci", Regex, "prod stopc", r##"(?i)hello world"##),
    g!("rx_unicode", Regex, "prod", r##"([α-ω]+|日本|é+)\."##),
    g!("rx_date", Regex, "prod stopc", r##"(19|20)\d\d-(0[1-9]|1[0-2])-(0[1-9]|[12]\d|3[01])"##),
    g!("rx_float", Regex, "prod", r##"-?(0|[1-9][0-9]*)(\.[0-9]+)?([eE][+-]?[0-9]+)?"##),
    g!("rx_words", Regex, "prod", r##"[A-Z][a-z]+( [A-Z][a-z]+){0,3}"##),
    g!("rx_anything", Regex, "prod", r##"(.|\n)*"##),
    g!("rx_nested_rep", Regex, "prod heavy", r##"((a{1,3}b{1,3}){1,4}c){1,3}"##),
    g!("rx_big_count", Regex, "prod heavy", r##"[a-f]{20,60}"##),
    // ---------------------------------------------------------------- JSON schema
    g!("js_person", Json, "prod str ff", r##"{"type":"object","properties":{"name":{"type":"string"},"age":{"type":"integer","minimum":0,"maximum":150},"email":{"type":"string","maxLength":12}},"required":["name","age"],"additionalProperties":false}"##),
    g!("js_prefix_keys", Json, "prod str ff", r##"{"type":"object","properties":{"id":{"type":"integer"},"ident":{"type":"string","maxLength":5},"identity":{"const":"user"},"idle":{"type":"boolean"}},"required":["id","ident","identity","idle"],"additionalProperties":false}"##),
    g!("js_enum", Json, "prod ff stopc", r##"{"enum":["red","reddish","green","greenish",42,null,true]}"##),
    g!("js_const_nested", Json, "prod ff stopc", r##"{"type":"object","properties":{"kind":{"const":"circle"},"meta":{"const":{"a":[1,2],"b":"x"}}},"required":["kind","meta"],"additionalProperties":false}"##),
    g!("js_str_maxlen", Json, "prod str", r##"{"type":"object","properties":{"a":{"type":"string","maxLength":9},"b":{"type":"string","minLength":10,"maxLength":11},"c":{"type":"string","maxLength":31}},"required":["a","b","c"],"additionalProperties":false}"##),
    g!("js_str_pattern", Json, "prod str", r##"{"type":"object","properties":{"code":{"type":"string","pattern":"^[A-Z]{2}[0-9]{2,4}$"},"note":{"type":"string","pattern":"^[a-z ]*$","maxLength":20}},"required":["code","note"],"additionalProperties":false}"##),
    g!("js_str_format", Json, "prod str", r##"{"type":"object","properties":{"d":{"type":"string","format":"date"},"t":{"type":"string","format":"time"},"u":{"type":"string","format":"uuid"}},"required":["d","t","u"],"additionalProperties":false}"##),
    g!("js_num_range", Json, "prod", r##"{"type":"object","properties":{"i":{"type":"integer","minimum":10,"maximum":99,"multipleOf":7},"n":{"type":"number","minimum":-1.5,"exclusiveMaximum":3.25},"m":{"type":"integer","exclusiveMinimum":-20,"maximum":5}},"required":["i","n","m"],"additionalProperties":false}"##),
    g!("js_array_bounds", Json, "prod", r##"{"type":"array","items":{"type":"integer","minimum":0,"maximum":9},"minItems":1,"maxItems":4}"##),
    g!("js_prefix_items", Json, "prod str", r##"{"type":"array","prefixItems":[{"type":"string","maxLength":4},{"type":"boolean"}],"items":{"type":"null"},"minItems":2,"maxItems":5}"##),
    g!("js_recursive", Json, "prod str", r##"{"$defs":{"node":{"type":"object","properties":{"v":{"type":"integer","minimum":0,"maximum":99},"kids":{"type":"array","items":{"$ref":"#/$defs/node"},"maxItems":2}},"required":["v"],"additionalProperties":false}},"$ref":"#/$defs/node"}"##),
    g!("js_anyof", Json, "prod str", r##"{"anyOf":[{"type":"string","maxLength":6},{"type":"integer"},{"type":"object","properties":{"k":{"type":"string"}},"required":["k"],"additionalProperties":false},{"type":"array","items":{"type":"boolean"},"maxItems":3}]}"##),
    g!("js_any_object", Json, "prod str", r##"{"type":"object"}"##),
    g!("js_addl_props", Json, "prod str", r##"{"type":"object","properties":{"a":{"type":"integer"}},"additionalProperties":{"type":"string","maxLength":3},"required":["a"]}"##),
    g!("js_compact", Json, "prod str ff", r##"{"x-guidance":{"whitespace_flexible":false,"item_separator":", ","key_separator":": "},"type":"object","properties":{"title":{"type":"string","maxLength":10},"tags":{"type":"array","items":{"enum":["a","ab","abc"]},"maxItems":3},"ok":{"type":"boolean"}},"required":["title","tags","ok"],"additionalProperties":false}"##),
    g!("js_allof", Json, "prod str", r##"{"allOf":[{"type":"object","properties":{"a":{"type":"string","minLength":1}},"required":["a"]},{"type":"object","properties":{"a":{"type":"string","maxLength":3},"b":{"type":"integer","minimum":5}},"required":["b"]}]}"##),
    g!("js_oneof_discriminated", Json, "prod str", r##"{"oneOf":[{"type":"object","properties":{"kind":{"const":"a"},"x":{"type":"integer","minimum":0,"maximum":20}},"required":["kind","x"],"additionalProperties":false},{"type":"object","properties":{"kind":{"const":"b"},"y":{"type":"string","maxLength":4}},"required":["kind","y"],"additionalProperties":false}]}"##),
    g!("js_min_max_props", Json, "prod str", r##"{"type":"object","additionalProperties":{"type":"integer","minimum":0,"maximum":9},"minProperties":1,"maxProperties":3}"##),
    g!("js_pattern_props", Json, "prod str", r##"{"type":"object","patternProperties":{"^k[0-9]$":{"type":"boolean"}},"additionalProperties":false}"##),
    g!("js_nested_arrays", Json, "prod", r##"{"type":"array","items":{"type":"array","items":{"type":"integer","minimum":-9,"maximum":9},"minItems":1,"maxItems":2},"minItems":1,"maxItems":3}"##),
    g!("js_formats2", Json, "prod str", r##"{"type":"object","properties":{"e":{"type":"string","format":"email"},"ip":{"type":"string","format":"ipv4"},"dt":{"type":"string","format":"date-time"},"du":{"type":"string","format":"duration"}},"required":["e","ip","dt","du"],"additionalProperties":false}"##),
    g!("js_enum_numbers", Json, "prod ff stopc", r##"{"type":"object","properties":{"level":{"enum":[1,10,100,1000]},"unit":{"enum":["s","ms","us","m"]}},"required":["level","unit"],"additionalProperties":false}"##),
    g!("js_multiple_of", Json, "prod", r##"{"type":"object","properties":{"a":{"type":"integer","multipleOf":3,"minimum":-30,"maximum":30},"b":{"type":"number","multipleOf":0.5,"minimum":0,"maximum":4}},"required":["a","b"],"additionalProperties":false}"##),
    g!("js_ws_pattern", Json, "prod str", r##"{"x-guidance":{"whitespace_pattern":"[ ]{0,2}"},"type":"object","properties":{"k":{"type":"array","items":{"type":"string","maxLength":2},"maxItems":2}},"required":["k"],"additionalProperties":false}"##),
    g!("js_optional_many", Json, "prod str", r##"{"type":"object","properties":{"a":{"type":"integer"},"b":{"type":"integer"},"c":{"type":"integer"},"d":{"type":"integer"},"e":{"type":"integer"}},"required":["c"],"additionalProperties":false}"##),
];

pub fn by_id(id: &str) -> Option<&'static Entry> {
    CORPUS.iter().find(|e| e.id == id)
}
