//! Executor: runs the operations of one task against real llguidance handles, keeps the
//! trivial reference model (committed-token history, failed/stopped flags) and an event log.

use std::collections::{BTreeMap, HashMap};
use std::sync::Arc;

use anyhow::Result;
use llguidance::toktrie::{TokEnv, TokenId};
use llguidance::{Matcher, ParserFactory, TokenParser};
use serde::Serialize;

use crate::handle::*;
use crate::rng::{fnv_bytes, mix};
use crate::scenario::*;
use crate::sched;
use crate::world::*;

#[derive(Clone, Copy, PartialEq, Eq, Debug)]
pub enum ErrClass {
    /// documented resource-limit stop
    Limit,
    /// caller error (token not allowed, out of range, call after stop, rollback too far ...)
    Misuse,
    /// internal panic caught at the API boundary
    Panic,
    /// lock poisoned by an interruption in a sibling
    Poison,
    /// empty mask / no extension
    NoExt,
    Other,
}

pub fn classify_err(msg: &str) -> ErrClass {
    if msg.contains("PoisonError") || msg.contains("poisoned") {
        ErrClass::Poison
    } else if msg.contains("panic:") {
        ErrClass::Panic
    } else if msg.contains("rollback: parser error") {
        // a parser limit error latched earlier (e.g. items limit inside force_bytes) surfaces here
        ErrClass::Limit
    } else if msg.contains("lexer error:")
        || msg.contains("parser error:")
        || msg.contains("Current row has")
        || msg.contains("max_tokens_total")
        || msg.contains("Too many items")
        || msg.contains("too many states")
        || msg.contains("too many expressions")
    {
        ErrClass::Limit
    } else if msg.contains("NoExtensionBias") || msg.contains("NoExtension") {
        ErrClass::NoExt
    } else if msg.contains("doesn't satisfy the grammar")
        || msg.contains("out of range")
        || msg.contains("parser stopped")
        || msg.contains("rollback")
        || msg.contains("not called")
        || msg.contains("sampled_token is required")
        || msg.contains("called after stop")
    {
        ErrClass::Misuse
    } else {
        ErrClass::Other
    }
}

/// message of an arithmetic-overflow panic (only exists in builds with overflow checks on, i.e. the
/// simcheck flavour; a release build would have carried on with the wrapped value)
pub fn is_overflow_panic(msg: &str) -> bool {
    msg.contains("panic") && msg.contains("attempt to") && msg.contains("with overflow")
}

pub fn short(msg: &str) -> String {
    let m = msg.lines().next().unwrap_or("");
    if m.len() > 160 {
        format!("{}…", &m[..m.char_indices().take_while(|(i, _)| *i < 160).last().map(|(i, c)| i + c.len_utf8()).unwrap_or(0)])
    } else {
        m.to_string()
    }
}

pub enum H {
    M(MH),
    C(CH),
    S(StopH),
}

pub struct StopH {
    pub rust: Option<llguidance::StopController>,
    pub c: *mut llguidance::ffi::LlgStopController,
    pub out: Vec<u8>,
    pub chunks: Vec<String>,
    pub toks: Vec<TokenId>,
    pub stopped: bool,
    pub spec_tokens: Vec<u32>,
    pub spec_strings: Vec<String>,
    pub spec_regex: Option<String>,
    pub after_stop_nonempty: bool,
    pub ctok: Option<Arc<CTok>>,
}
unsafe impl Send for StopH {}
impl Drop for StopH {
    fn drop(&mut self) {
        if !self.c.is_null() {
            unsafe { llguidance::ffi::llg_free_stop_controller(self.c) }
        }
    }
}

pub struct Slot {
    pub h: H,
    /// model: tokens committed so far
    pub hist: Vec<TokenId>,
    /// model: handle observed an error from a call (Matcher errors are sticky)
    pub failed: Option<String>,
    /// model: an interruption (panic in critical section) happened in this lexer-sharing group
    pub lexer_group: usize,
    pub last_mask: Option<Vec<u32>>,
    pub alt: Option<usize>,
    /// constraint model
    pub c_started: bool,
    pub c_pending_mask: Option<Vec<u32>>,
    pub c_stopped: bool,
    pub c_ff: bool,
    pub ops_since_fault: u32,
    /// a Rust constraint rejected a commit earlier (known finding F8: the token may have been partly consumed)
    pub rejected_commit: bool,
    /// the rejected token starts with a byte the grammar accepts at that point (known finding F8:
    /// part of a rejected token may already have been consumed)
    pub rejected_partial: bool,
}

#[derive(Default, Clone, Debug, Serialize)]
pub struct RunStats {
    pub ops: u64,
    pub checks: u64,
    pub checks_skipped: u64,
    pub masks: u64,
    pub commits: u64,
    pub rollbacks: u64,
    pub tokens_checked: u64,
    pub states: u64,
    pub fuel: u64,
    pub faults: BTreeMap<String, u64>,
    pub probes: BTreeMap<String, u64>,
    #[serde(skip)]
    pub state_hashes: Vec<u64>,
}

impl RunStats {
    pub fn fault(&mut self, k: &str) {
        *self.faults.entry(k.to_string()).or_insert(0) += 1;
    }
    pub fn probe(&mut self, k: &str) {
        *self.probes.entry(k.to_string()).or_insert(0) += 1;
    }
    pub fn merge(&mut self, o: &RunStats) {
        self.ops += o.ops;
        self.checks += o.checks;
        self.checks_skipped += o.checks_skipped;
        self.masks += o.masks;
        self.commits += o.commits;
        self.rollbacks += o.rollbacks;
        self.tokens_checked += o.tokens_checked;
        self.states += o.states;
        self.fuel += o.fuel;
        for (k, v) in &o.faults {
            *self.faults.entry(k.clone()).or_insert(0) += v;
        }
        for (k, v) in &o.probes {
            *self.probes.entry(k.clone()).or_insert(0) += v;
        }
        self.state_hashes.extend_from_slice(&o.state_hashes);
    }
}

/// Shared, immutable per-run context
pub struct Ctx {
    pub sc: Scenario,
    pub world: World,
    pub alt_factories: Vec<ParserFactory>,
    pub ctok: Option<Arc<CTok>>,
    pub byte_env: TokEnv,
    pub byte_factory: ParserFactory,
    pub byte_grammar: llguidance::api::TopLevelGrammar,
    pub tokref: bool,
    /// token ids named by `<[...]>` expressions of the grammar text: (lo, hi, negated)
    pub tokref_ranges: Vec<(u64, u64, bool)>,
    /// lexer-sharing groups poisoned by an interruption (shared by all tasks)
    pub poisoned: std::sync::Mutex<Vec<usize>>,
    pub lexer_err_groups: std::sync::Mutex<Vec<usize>>,
    pub next_group: std::sync::atomic::AtomicUsize,
    /// per lexer-sharing group: a shallow clone of the root parser, used only to read the shared
    /// lexer's statistics (budget oracle)
    pub observers: std::sync::Mutex<HashMap<usize, llguidance::earley::Parser>>,
}

impl Ctx {
    pub fn build(sc: &Scenario, need_c: bool) -> Result<Ctx> {
        let world = World::build(&sc.world)?;
        let mut alt_factories = vec![];
        for a in &sc.alts {
            alt_factories.push(make_factory(&world.tok_env, a, &sc.world.limits, false)?);
        }
        let ctok = if need_c {
            Some(Arc::new(CTok::new(&world, sc.c_tok_v2)?))
        } else {
            None
        };
        let bv = byte_vocab();
        let byte_env = make_tok_env(&bv, false);
        let byte_factory = make_factory(&byte_env, &Some(vec![]), &LimitsSpec::default(), false)?;
        let tokref = crate::corpus::by_id(&sc.world.grammar_id)
            .map(|e| e.has("tokref"))
            .unwrap_or(sc.world.grammar_text.contains("<[") || sc.world.grammar_text.contains("<|"));
        let byte_grammar = top_level_grammar(sc.world.grammar_kind, &sc.world.grammar_text)?;
        let mut tokref_ranges = vec![];
        {
            let t = &sc.world.grammar_text;
            let mut i = 0;
            while let Some(p) = t[i..].find("<[") {
                let st = i + p + 2;
                let en = match t[st..].find("]>") {
                    Some(e) => st + e,
                    None => break,
                };
                let body = &t[st..en];
                let (neg, body) = match body.strip_prefix('^') {
                    Some(b) => (true, b),
                    None => (false, body),
                };
                for part in body.split(',') {
                    let mut it = part.trim().splitn(2, '-');
                    let lo = it.next().and_then(|x| x.trim().parse::<u64>().ok());
                    let hi = it.next().map(|x| x.trim().parse::<u64>().ok()).unwrap_or(lo);
                    if let (Some(lo), Some(hi)) = (lo, hi) {
                        tokref_ranges.push((lo, hi, neg));
                    }
                }
                i = en + 2;
            }
        }
        Ok(Ctx {
            sc: sc.clone(),
            world,
            alt_factories,
            ctok,
            byte_env,
            byte_factory,
            byte_grammar,
            tokref,
            tokref_ranges,
            poisoned: Default::default(),
            lexer_err_groups: Default::default(),
            next_group: std::sync::atomic::AtomicUsize::new(1),
            observers: Default::default(),
        })
    }
    pub fn n_vocab(&self) -> usize {
        self.world.n_vocab()
    }
    pub fn tok_bytes(&self, t: TokenId) -> &[u8] {
        &self.world.vocab_words[t as usize]
    }
    pub fn is_special(&self, t: TokenId) -> bool {
        let b = self.tok_bytes(t);
        b.is_empty() || b[0] == 0xff
    }
    pub fn group_poisoned(&self, g: usize) -> bool {
        self.poisoned.lock().unwrap().contains(&g)
    }
    /// (total fuel spent, error flag) of the lexer shared by group `g`; the read itself is not a
    /// scheduling decision (but yields if the lock is busy)
    pub fn observe_lexer(&self, g: usize) -> Option<(u64, bool, usize)> {
        let obs = self.observers.lock().unwrap().get(&g).cloned()?;
        sched::NO_YIELD.with(|n| n.set(true));
        let r = std::panic::catch_unwind(std::panic::AssertUnwindSafe(|| obs.lexer_stats()));
        sched::NO_YIELD.with(|n| n.set(false));
        let st = r.ok()?;
        Some((st.total_fuel_spent as u64, st.error, st.num_states))
    }
    pub fn group_lexer_err(&self, g: usize) -> bool {
        self.lexer_err_groups.lock().unwrap().contains(&g)
    }
}

pub struct Exec<'a> {
    pub ctx: &'a Ctx,
    pub task: usize,
    pub slots: HashMap<SlotId, Slot>,
    pub stats: RunStats,
    pub log_hash: u64,
    pub log: Vec<String>,
    pub keep_log: bool,
    pub step: usize,
    protos: HashMap<String, TokenParser>,
    /// per constraint slot: (grammar bytes that were moved into the returned prompt, healed prompt bytes)
    pub prompt_grm_bytes: HashMap<SlotId, (Vec<u8>, usize)>,
    /// last successful validate_tokens per slot: ((history, draft), count)
    pub last_validate: HashMap<SlotId, ((Vec<TokenId>, Vec<TokenId>), usize)>,
    pub keep_alive: Vec<Box<std::sync::atomic::AtomicU32>>,
    /// did the injected fuel fault fire during the current operation?
    pub fuel_fired: bool,
}

pub type VResult<T> = std::result::Result<T, Violation>;

impl<'a> Exec<'a> {
    pub fn new(ctx: &'a Ctx, task: usize, keep_log: bool) -> Self {
        Exec {
            ctx,
            task,
            slots: HashMap::new(),
            stats: RunStats::default(),
            log_hash: 0,
            log: vec![],
            keep_log,
            step: 0,
            protos: HashMap::new(),
            prompt_grm_bytes: HashMap::new(),
            last_validate: HashMap::new(),
            keep_alive: vec![],
            fuel_fired: false,
        }
    }

    pub fn ev(&mut self, s: String) {
        self.log_hash = fnv_bytes(self.log_hash.rotate_left(5), s.as_bytes());
        if self.keep_log {
            if std::env::var_os("LLG_SIM_LIVE").is_some() {
                // development aid: events in the order they happen (the per-task logs are printed
                // task by task); never set by the checks
                eprintln!("live t{} #{} {}", self.task, self.step, s);
            }
            self.log.push(format!("t{} #{} {}", self.task, self.step, s));
        }
    }

    pub fn viol(&self, oracle: &str, signature: &str, detail: String) -> Violation {
        Violation {
            property: self.ctx.sc.property.clone(),
            oracle: oracle.to_string(),
            task: self.task,
            step: self.step,
            detail,
            signature: signature.to_string(),
        }
    }

    pub fn fault_free(&self) -> bool {
        !self.ctx.sc.fault_injecting
    }

    // ------------------------------------------------------------- reference engines

    fn proto(&mut self, key: &str) -> Result<TokenParser> {
        if !self.protos.contains_key(key) {
            let p = match key {
                "main" => self.ctx.world.new_parser_with(&self.ctx.world.factory)?,
                "byte" => self
                    .ctx
                    .byte_factory
                    .create_parser(self.ctx.byte_grammar.clone())?,
                k if k.starts_with("alt") => {
                    let i: usize = k[3..].parse().unwrap();
                    self.ctx.world.new_parser_with(&self.ctx.alt_factories[i])?
                }
                _ => unreachable!(),
            };
            self.protos.insert(key.to_string(), p);
        }
        Ok(self.protos.get(key).unwrap().deep_clone())
    }

    /// R-fresh: a private, freshly built engine (never shares anything with handles under test)
    pub fn fresh_matcher(&mut self, alt: Option<usize>) -> Matcher {
        let key = match alt {
            None => "main".to_string(),
            Some(i) => format!("alt{i}"),
        };
        let p = if self.ctx.world.spec.fresh_rebuild {
            match alt {
                None => self.ctx.world.new_parser_with(&self.ctx.world.factory),
                Some(i) => self.ctx.world.new_parser_with(&self.ctx.alt_factories[i]),
            }
        } else {
            self.proto(&key)
        };
        Matcher::new(p)
    }

    /// R-byte: same grammar over the single-byte vocabulary, non-canonical, no slices
    pub fn byte_matcher(&mut self) -> Matcher {
        Matcher::new(self.proto("byte"))
    }

    // ------------------------------------------------------------- slots

    pub fn slot(&mut self, h: SlotId) -> Option<&mut Slot> {
        self.slots.get_mut(&h)
    }

    fn new_slot(&mut self, h: H, alt: Option<usize>, group: usize) -> Slot {
        Slot {
            h,
            hist: vec![],
            failed: None,
            lexer_group: group,
            last_mask: None,
            alt,
            c_started: false,
            c_pending_mask: None,
            c_stopped: false,
            c_ff: false,
            ops_since_fault: 0,
            rejected_commit: false,
            rejected_partial: false,
        }
    }

    pub fn mirror_group(&self, h: SlotId) -> Vec<SlotId> {
        for g in &self.ctx.sc.mirrors {
            if g.contains(&h) {
                return g.clone();
            }
        }
        vec![h]
    }

    pub fn hist_bytes(&self, hist: &[TokenId]) -> Option<Vec<u8>> {
        let mut out = vec![];
        for &t in hist {
            if self.ctx.is_special(t) {
                return None;
            }
            out.extend_from_slice(self.ctx.tok_bytes(t));
        }
        Some(out)
    }

    pub fn state_hash(&mut self, hist: &[TokenId]) {
        let mut h = crate::rng::fnv(&self.ctx.sc.world.grammar_id);
        h = mix(h, self.ctx.n_vocab() as u64);
        for &t in hist {
            if (t as usize) < self.ctx.n_vocab() {
                let b: Vec<u8> = self.ctx.tok_bytes(t).to_vec();
                h = fnv_bytes(h, &b);
            } else {
                h = mix(h, t as u64);
            }
        }
        self.stats.state_hashes.push(h);
        self.stats.states += 1;
    }

    // ------------------------------------------------------------- pick resolution

    /// Current mask of a matcher slot (computing it if needed; that is one more query).
    pub fn current_mask(&mut self, h: SlotId) -> VResult<Option<Vec<u32>>> {
        let nv = self.ctx.n_vocab();
        let s = match self.slots.get_mut(&h) {
            Some(s) => s,
            None => return Ok(None),
        };
        if let Some(m) = &s.last_mask {
            return Ok(Some(m.clone()));
        }
        if s.failed.is_some() {
            return Ok(None);
        }
        let r = match &mut s.h {
            H::M(m) => {
                if m.is_stopped() {
                    return Ok(None);
                }
                m.compute_mask(nv)
            }
            _ => return Ok(None),
        };
        self.stats.masks += 1;
        match r {
            Ok(m) => {
                let s = self.slots.get_mut(&h).unwrap();
                s.last_mask = Some(m.clone());
                Ok(Some(m))
            }
            Err(e) => {
                self.on_matcher_err(h, "mask", &e.to_string(), true)?;
                Ok(None)
            }
        }
    }

    pub fn resolve_pick(&mut self, mask: Option<&Vec<u32>>, p: &Pick) -> Option<TokenId> {
        let nv = self.ctx.n_vocab() as u32;
        let eos = self.ctx.world.eos();
        match p {
            Pick::Tok(t) => Some(*t),
            Pick::ForcedSplit(_) => None,
            Pick::Eos => Some(eos),
            Pick::EosAlt(r) => {
                let all = self.ctx.world.eos_all();
                Some(all[(*r % all.len() as u64) as usize])
            }
            Pick::OutOfRange(x) => Some(nv + (*x % 1000)),
            Pick::Outside(r) => {
                let m = mask?;
                let out: Vec<u32> = (0..nv).filter(|t| !bit(m, *t)).collect();
                if out.is_empty() {
                    None
                } else {
                    Some(out[(*r % out.len() as u64) as usize])
                }
            }
            Pick::Mask(r) => {
                let l = set_bits(mask?);
                if l.is_empty() {
                    None
                } else {
                    Some(l[(*r % l.len() as u64) as usize])
                }
            }
            Pick::MaskNoEos(r) => {
                let l = set_bits(mask?);
                let l2: Vec<u32> = l.iter().copied().filter(|t| !self.ctx.world.is_eos(*t)).collect();
                let l = if l2.is_empty() { l } else { l2 };
                if l.is_empty() {
                    None
                } else {
                    Some(l[(*r % l.len() as u64) as usize])
                }
            }
            Pick::Longest(r) => {
                let l = set_bits(mask?);
                let l: Vec<u32> = l.into_iter().filter(|t| !self.ctx.world.is_eos(*t)).collect();
                if l.is_empty() {
                    return None;
                }
                let maxlen = l
                    .iter()
                    .map(|t| self.ctx.tok_bytes(*t).len())
                    .max()
                    .unwrap();
                // among the longest quarter
                let cand: Vec<u32> = l
                    .iter()
                    .copied()
                    .filter(|t| self.ctx.tok_bytes(*t).len() * 4 >= maxlen * 3)
                    .collect();
                Some(cand[(*r % cand.len() as u64) as usize])
            }
            Pick::High(r) => {
                let l = set_bits(mask?);
                let l: Vec<u32> = l.into_iter().filter(|t| !self.ctx.world.is_eos(*t)).collect();
                if l.is_empty() {
                    return None;
                }
                let k = (l.len() / 4).max(1);
                Some(l[l.len() - 1 - (*r % k as u64) as usize])
            }
        }
    }

    // ------------------------------------------------------------- error bookkeeping (M-proto)

    /// A call on matcher slot `h` returned Err(msg). `legal` = the call was legal per protocol.
    /// Decides whether that is acceptable, and updates the model.
    pub fn on_matcher_err(&mut self, h: SlotId, what: &str, msg: &str, legal: bool) -> VResult<()> {
        let cls = classify_err(msg);
        let ff = self.fault_free();
        let productive = self.ctx.sc.productive;
        let (group, already_failed) = {
            let s = self.slots.get(&h).unwrap();
            (s.lexer_group, s.failed.is_some())
        };
        self.ev(format!("{what} h{h} ERR {:?}", cls));
        if already_failed {
            return Ok(());
        }
        let poisoned = self.ctx.group_poisoned(group);
        let lexer_err = self.ctx.group_lexer_err(group);
        match cls {
            ErrClass::Panic => {
                // a deadlock in the simulated schedule unwinds as a panic from before_lock
                if msg.contains("simulated deadlock") {
                    return Err(self.viol(
                        "deadlock",
                        "deadlock",
                        format!("{what} on h{h}: {}", short(msg)),
                    ));
                }
                if !(msg.contains("synthetic error")) && legal {
                    return Err(self.viol(
                        "no_internal_panic",
                        &format!("panic:{what}"),
                        format!("{what} on h{h} failed with an internal panic: {}", short(msg)),
                    ));
                }
            }
            ErrClass::Poison => {
                if !poisoned {
                    return Err(self.viol(
                        "no_internal_panic",
                        &format!("poison:{what}"),
                        format!("{what} on h{h}: poisoned lock without an injected interruption: {}", short(msg)),
                    ));
                }
                self.stats.probe("sibling_saw_poisoned_lock");
            }
            ErrClass::Limit => {
                if ff && self.ctx.sc.world.limits.is_default() && !lexer_err {
                    // default limits can legitimately be hit by heavy grammars; counted, not judged
                    self.stats.probe("limit_hit_with_default_limits");
                }
                if msg.contains("lexer error") {
                    self.ctx.lexer_err_groups.lock().unwrap().push(group);
                    self.stats.probe("lexer_error_entered");
                }
                // The Earley item budget is per engine and per step (unlike lexer fuel, which lives in
                // the lexer shared by shallow clones). A private engine replaying the same tokens does at
                // least as much work in the same step (it has no rows to reuse and nothing forced
                // earlier), so if it computes the mask within the budget, this engine's "Too many items"
                // was not earned by its own step.
                if msg.contains("Too many items")
                    && (what == "mask" || what == "observe")
                    && !poisoned
                    && !lexer_err
                    && !self.fuel_fired
                    && self.ctx.sc.property == "C14"
                {
                    let (hist, alt, is_rust) = {
                        let s = self.slots.get(&h).unwrap();
                        (s.hist.clone(), s.alt, matches!(s.h, H::M(MH::R(_))))
                    };
                    if is_rust {
                        let nv = self.ctx.n_vocab();
                        let mut f = MH::R(self.fresh_matcher(alt));
                        let fed = hist.is_empty() || f.consume_tokens(&hist).is_ok();
                        if fed && !f.is_stopped() {
                            self.stats.probe("item_limit_stop_replayed_privately");
                            if f.compute_mask(nv).is_ok() {
                                return Err(self.viol(
                                    "clone_independent",
                                    "item_limit_not_earned",
                                    format!(
                                        "{what} on h{h} failed with {} but a private engine with the same limits and history {:?} computes the mask",
                                        short(msg),
                                        &hist[..hist.len().min(12)]
                                    ),
                                ));
                            }
                        }
                    }
                }
            }
            ErrClass::NoExt => {
                if productive && legal {
                    return Err(self.viol(
                        "no_dead_end",
                        "empty_mask_non_accepting",
                        format!("{what} on h{h}: empty mask / no extension in a non-accepting state: {}", short(msg)),
                    ));
                }
            }
            ErrClass::Misuse => {
                if legal && !poisoned && !lexer_err {
                    return Err(self.viol(
                        "legal_call_rejected",
                        &format!("rejected:{what}"),
                        format!("legal {what} on h{h} was rejected: {}", short(msg)),
                    ));
                }
            }
            ErrClass::Other => {
                if legal && !poisoned && !lexer_err {
                    return Err(self.viol(
                        "undocumented_error",
                        &format!("other:{what}"),
                        format!("{what} on h{h} failed with an undocumented error: {}", short(msg)),
                    ));
                }
            }
        }
        // Matcher contract: any error leaves the matcher permanently failed
        let s = self.slots.get_mut(&h).unwrap();
        let is_err = match &mut s.h {
            H::M(m) => m.is_error(),
            _ => true,
        };
        if is_err {
            s.failed = Some(msg.to_string());
            s.last_mask = None;
        } else {
            // "usable": must keep behaving like R-fresh of its history; remembered as a probe,
            // the next ChkFresh decides
            self.stats.probe("error_left_handle_usable");
        }
        Ok(())
    }

    /// The handle may have latched an error during a call whose API swallows errors
    /// (compute_ff_tokens / compute_ff_bytes return empty results): bring the model up to date.
    pub fn sync_failed(&mut self, h: SlotId) -> VResult<()> {
        let msg = match self.slots.get_mut(&h) {
            Some(s) if s.failed.is_none() => match &mut s.h {
                H::M(m) => {
                    if m.is_error() {
                        m.get_error()
                    } else {
                        None
                    }
                }
                _ => None,
            },
            _ => None,
        };
        if let Some(m) = msg {
            self.on_matcher_err(h, "latent", &m, true)?;
        }
        Ok(())
    }

    // ------------------------------------------------------------- running

    pub fn run_ops(&mut self, ops: &[Op], sched: Option<&Arc<sched::Sched>>) -> VResult<()> {
        for (i, op) in ops.iter().enumerate() {
            self.step = i;
            if let Some(s) = sched {
                if s.aborted() {
                    if let Some(d) = s.deadlock() {
                        return Err(self.viol("deadlock", "deadlock", d));
                    }
                    return Ok(());
                }
                sched::op_boundary();
            }
            self.stats.ops += 1;
            let r = std::panic::catch_unwind(std::panic::AssertUnwindSafe(|| self.exec(op)));
            match r {
                Ok(Ok(())) => {}
                Ok(Err(v)) => return Err(v),
                Err(p) => {
                    let msg = if let Some(s) = p.downcast_ref::<&str>() {
                        s.to_string()
                    } else if let Some(s) = p.downcast_ref::<String>() {
                        s.clone()
                    } else {
                        "panic".to_string()
                    };
                    if msg.contains("simulated deadlock") {
                        return Err(self.viol("deadlock", "deadlock", msg));
                    }
                    // a panic that escaped the library's own catch_unwind boundary
                    return Err(self.viol(
                        "no_escaping_panic",
                        "escaped_panic",
                        format!("panic escaped from {:?}: {}", op_name(op), short(&msg)),
                    ));
                }
            }
        }
        Ok(())
    }

    pub fn exec(&mut self, op: &Op) -> VResult<()> {
        for h in crate::run::op_slots(op) {
            self.sync_failed(h)?;
        }
        let r = self.exec_inner(op);
        if r.is_ok() {
            for h in crate::run::op_slots(op) {
                self.sync_failed(h)?;
            }
        }
        r
    }

    fn exec_inner(&mut self, op: &Op) -> VResult<()> {
        match op {
            Op::New { h, kind, alt } => self.op_new(*h, kind, *alt),
            Op::Clone { src, dst, deep } => self.op_clone(*src, *dst, *deep),
            Op::Drop { h } => {
                self.slots.remove(h);
                self.ev(format!("drop h{h}"));
                Ok(())
            }
            Op::Warm {
                alt,
                kind,
                text,
                steps,
                seed,
            } => self.op_warm(*alt, *kind, text, *steps, *seed),
            Op::Mask { h, fuel_at } => self.op_mask(*h, *fuel_at, false),
            Op::MaskOrEos { h } => self.op_mask(*h, None, true),
            Op::Validate { h, picks } => self.op_validate(*h, picks),
            Op::IsAccepting { h } => self.op_query(*h, "acc"),
            Op::FfBytes { h } => self.op_query(*h, "ffb"),
            Op::FfTokens { h } => self.op_query(*h, "fft"),
            Op::Invalidate { h } => self.op_query(*h, "inv"),
            Op::Commit { h, pick, fuel_at } => self.op_commit(*h, std::slice::from_ref(pick), *fuel_at, false),
            Op::CommitMany { h, picks } => self.op_commit(*h, picks, None, false),
            Op::TryConsume { h, picks } => self.op_commit(*h, picks, None, true),
            Op::ConsumeFf { h } => self.op_consume_ff(*h),
            Op::Rollback { h, k } => self.op_rollback(*h, *k, false),
            Op::Reset { h } => self.op_rollback(*h, 0, true),
            Op::TriggerPanic { h } => self.op_trigger_panic(*h),
            Op::ChkAccept { h, sample, seed } => self.chk_accept(*h, *sample, *seed),
            Op::ChkSeq { h, picks } => self.chk_seq(*h, picks),
            Op::ChkFresh { h } => self.chk_fresh(*h),
            Op::ChkByte { h } => self.chk_byte(*h),
            Op::ChkResplit { h, seed } => self.chk_resplit(*h, *seed),
            Op::ChkDead { h, depth, nodes } => self.chk_dead(*h, *depth, *nodes),
            Op::ChkComplete {
                h,
                attempts,
                steps,
                seed,
            } => self.chk_complete(*h, *attempts, *steps, *seed),
            Op::ChkMirror { h } => self.chk_mirror(*h),
            Op::ChkContinue { h, snap, picks } => self.chk_continue(*h, *snap, picks),
            Op::ChkFf { h } => self.chk_ff(*h),
            Op::CStart { h, prompt } => self.op_cstart(*h, prompt),
            Op::CStep { h, pick } => self.op_cstep(*h, Some(pick), true, true),
            Op::CMaskOnly { h } => self.op_cstep(*h, None, true, false),
            Op::CCommitOnly { h, pick } => self.op_cstep(*h, Some(pick), false, true),
            Op::ChkText { h } => self.chk_text(*h),
            Op::ParMask { hs, words, is_async, quirks } => self.op_par_mask(hs, words, *is_async, quirks),
            Op::CMaskInto { h, words } => self.op_cmask_into(*h, *words),
            Op::CFfInto { h, len } => self.op_cff_into(*h, *len),
            Op::CTokUtil { which, seed, len, via_clone } => self.op_ctok_util(*which, *seed, *len, *via_clone),
            Op::StopNew {
                h,
                stop_tokens,
                stop_strings,
                stop_regex,
                via_c,
            } => self.op_stop_new(*h, stop_tokens, stop_strings, stop_regex, *via_c),
            Op::StopClone { src, dst } => self.op_stop_clone(*src, *dst),
            Op::StopCommit { h, tok } => self.op_stop_commit(*h, *tok),
            Op::ChkStop { h } => self.chk_stop(*h),
            Op::HostileC {
                what,
                tag,
                data,
                buf_len,
            } => self.op_hostile_c(what, tag, data, *buf_len),
        }
    }

    fn op_new(&mut self, h: SlotId, kind: &HKind, alt: Option<usize>) -> VResult<()> {
        let group = self
            .ctx
            .next_group
            .fetch_add(1, std::sync::atomic::Ordering::SeqCst);
        let w = &self.ctx.world;
        let hh = match kind {
            HKind::Matcher => {
                let fac = match alt {
                    None => &w.factory,
                    Some(i) => &self.ctx.alt_factories[i],
                };
                let p = w.new_parser_with(fac);
                if self.ctx.sc.budget_oracle {
                    if let Ok(tp) = &p {
                        self.ctx.observers.lock().unwrap().insert(group, tp.parser.clone());
                    }
                }
                H::M(MH::R(Matcher::new(p)))
            }
            HKind::CMatcher => H::M(MH::C(CMatcher::new(w, self.ctx.ctok.as_ref().unwrap()))),
            HKind::Constraint { ff } => {
                let fac = make_factory(&w.tok_env, &w.spec.slices, &w.spec.limits, *ff)
                    .map_err(|e| self.viol("harness", "harness", e.to_string()))?;
                match w.new_parser_with(&fac) {
                    Ok(p) => H::C(CH::R(llguidance::Constraint::new(p))),
                    Err(e) => {
                        return Err(self.viol(
                            "harness",
                            "harness",
                            format!("cannot build constraint: {e}"),
                        ))
                    }
                }
            }
            HKind::CConstraint { ff } => H::C(CH::C(CConstraint::new(
                w,
                self.ctx.ctok.as_ref().unwrap(),
                *ff,
                h,
            ))),
        };
        let mut s = self.new_slot(hh, alt, group);
        if let HKind::Constraint { ff } | HKind::CConstraint { ff } = kind {
            s.c_ff = *ff;
        }
        // construction errors: corpus grammars always build with default limits
        if let H::M(m) = &mut s.h {
            if let Some(e) = m.get_error() {
                let cls = classify_err(&e);
                if self.fault_free() && self.ctx.sc.world.limits.is_default() {
                    return Err(self.viol(
                        "construction",
                        "construction_failed",
                        format!("construction of h{h} failed: {}", short(&e)),
                    ));
                }
                // hostile / limited construction: any *reported* error is acceptable, including an
                // internal assertion caught at the API boundary (C20 only forbids internal panics
                // once a constraint has been built)
                if cls == ErrClass::Panic {
                    self.stats.probe("construction_error_was_caught_panic");
                    if is_overflow_panic(&e) {
                        // ... but not an arithmetic overflow: without overflow checks (as users build
                        // it) the wrapped value is used and a result is returned
                        return Err(self.viol(
                            "no_arithmetic_overflow",
                            "overflow:build",
                            format!("construction of h{h}: internal arithmetic overflow: {}", short(&e)),
                        ));
                    }
                }
                s.failed = Some(e);
                self.stats.fault("construction_limit");
            }
        }
        self.ev(format!("new h{h} {:?} alt={:?}", kind, alt));
        self.slots.insert(h, s);
        Ok(())
    }

    fn op_warm(&mut self, alt: Option<usize>, kind: crate::corpus::GKind, text: &str, steps: usize, seed: u64) -> VResult<()> {
        let fac = match alt {
            None => &self.ctx.world.factory,
            Some(i) => &self.ctx.alt_factories[i],
        };
        let g = match top_level_grammar(kind, text) {
            Ok(g) => g,
            Err(_) => return Ok(()),
        };
        let mut m = Matcher::new(fac.create_parser(g));
        let mut rng = crate::rng::Rng::new(seed);
        let mut n = 0;
        for _ in 0..steps {
            if m.is_stopped() {
                break;
            }
            let mask = match m.compute_mask() {
                Ok(x) => x,
                Err(_) => break,
            };
            let l = mask.to_list();
            if l.is_empty() {
                break;
            }
            // long tokens keep the warm-up engine inside big lexemes (where slices apply)
            let t = if rng.chance(0.5) {
                *l.iter()
                    .max_by_key(|t| self.ctx.tok_bytes(**t).len())
                    .unwrap()
            } else {
                *rng.pick(&l)
            };
            if m.consume_token(t).is_err() {
                break;
            }
            n += 1;
        }
        self.stats.probe("warmup_other_grammar_on_shared_factory");
        self.ev(format!("warm alt={:?} steps={n}", alt));
        Ok(())
    }

    fn op_clone(&mut self, src: SlotId, dst: SlotId, deep: bool) -> VResult<()> {
        let group_new = self
            .ctx
            .next_group
            .fetch_add(1, std::sync::atomic::Ordering::SeqCst);
        let s = match self.slots.get_mut(&src) {
            Some(s) => s,
            None => return Ok(()),
        };
        let (h2, really_deep) = match &mut s.h {
            H::M(m) => {
                let is_c = matches!(m, MH::C(_));
                (H::M(m.clone_handle(deep)), deep || is_c)
            }
            H::C(c) => {
                let is_c = matches!(c, CH::C(_));
                (H::C(c.clone_handle(deep)), deep && !is_c)
            }
            H::S(_) => return Ok(()),
        };
        let ns = Slot {
            h: h2,
            hist: s.hist.clone(),
            failed: s.failed.clone(),
            lexer_group: if really_deep { group_new } else { s.lexer_group },
            last_mask: None,
            alt: s.alt,
            c_started: s.c_started,
            c_pending_mask: s.c_pending_mask.clone(),
            c_stopped: s.c_stopped,
            c_ff: s.c_ff,
            ops_since_fault: 0,
            rejected_commit: s.rejected_commit,
            rejected_partial: s.rejected_partial,
        };
        let mut ns = ns;
        if ns.failed.is_none() {
            // a deep clone has to read the shared lexer: if the lock is poisoned by an interrupted
            // sibling the clone is born failed (and must say so); otherwise a clone never fails
            let err = match &mut ns.h {
                H::M(m) => m.get_error(),
                _ => None,
            };
            if let Some(e) = err {
                let src_group = self.slots[&src].lexer_group;
                if self.ctx.group_poisoned(src_group) {
                    self.stats.probe("clone_of_poisoned_lexer_failed_cleanly");
                    ns.failed = Some(e);
                } else {
                    return Err(self.viol(
                        "clone_independent",
                        "clone_failed",
                        format!("clone h{src}->h{dst} of a healthy handle is in error state: {}", short(&e)),
                    ));
                }
            }
        }
        self.slots.insert(dst, ns);
        self.ev(format!("clone h{src}->h{dst} deep={deep}"));
        self.stats.probe(if deep { "clone_deep" } else { "clone_shallow" });
        Ok(())
    }

    fn with_fuel_fault<T>(&mut self, fuel_at: Option<u32>, f: impl FnOnce(&mut Self) -> T) -> T {
        if let Some(k) = fuel_at {
            sched::FUEL_FAULT.with(|x| x.set(Some(k)));
            let fired0 = sched::FUEL_FAULT_FIRED.with(|x| x.get());
            let r = f(self);
            sched::FUEL_FAULT.with(|x| x.set(None));
            let fired1 = sched::FUEL_FAULT_FIRED.with(|x| x.get());
            self.fuel_fired = fired1 > fired0;
            if fired1 > fired0 {
                self.stats.fault("fuel_exhausted_mid_operation");
            }
            r
        } else {
            self.fuel_fired = false;
            f(self)
        }
    }

    fn op_mask(&mut self, h: SlotId, fuel_at: Option<u32>, or_eos: bool) -> VResult<()> {
        let nv = self.ctx.n_vocab();
        let eos = self.ctx.world.eos();
        let (failed, stopped) = match self.slots.get_mut(&h) {
            Some(s) => match &mut s.h {
                H::M(m) => (s.failed.is_some(), m.is_stopped()),
                _ => return Ok(()),
            },
            None => return Ok(()),
        };
        // outside the protocol families a plain mask request on a finished engine is not issued
        // (it is an error by contract and makes a Matcher permanently failed)
        let or_eos = or_eos || (stopped && !failed && self.ctx.sc.auto_restart);
        let budget = self.budget_window_open(h);
        let r = self.with_fuel_fault(fuel_at, |me| {
            let s = me.slots.get_mut(&h).unwrap();
            match &mut s.h {
                H::M(m) => {
                    if or_eos {
                        m.compute_mask_or_eos(nv)
                    } else {
                        m.compute_mask(nv)
                    }
                }
                _ => unreachable!(),
            }
        });
        self.stats.masks += 1;
        if let Some(b) = budget {
            self.budget_window_close(h, b, r.as_ref().err().map(|e| e.to_string()))?;
        }
        match r {
            Ok(m) => {
                if failed {
                    return Err(self.viol(
                        "sticky_failure",
                        "mask_after_failure",
                        format!("h{h} had failed but compute_mask succeeded"),
                    ));
                }
                if stopped {
                    // after a stop: asking for a mask is an error or yields only EOS
                    let bits = set_bits(&m);
                    let mut want = self.ctx.world.eos_all();
                    want.sort();
                    let _ = eos;
                    if bits != want {
                        return Err(self.viol(
                            "mask_after_stop",
                            "mask_after_stop",
                            format!("h{h} is stopped but mask has bits {:?}", &bits[..bits.len().min(8)]),
                        ));
                    }
                } else {
                    self.check_mask_range(h, &m)?;
                }
                if self.keep_log {
                    let b = set_bits(&m);
                    self.log.push(format!("      mask bits n={} {:?}", b.len(), &b[..b.len().min(16)]));
                }
                self.ev(format!("mask h{h} {:016x}", hash_words(&m)));
                let s = self.slots.get_mut(&h).unwrap();
                let pr = match &s.h {
                    H::M(mm) => (mm.slices_applied(), mm.cached_rows(), mm.lexer_cost()),
                    _ => (0, 0, 0),
                };
                if !stopped {
                    s.last_mask = Some(m);
                }
                if pr.0 > 0 {
                    self.stats.probe("slice_applied");
                }
                if pr.1 > 0 {
                    self.stats.probe("row_reuse_hit");
                }
                Ok(())
            }
            Err(e) => {
                let legal = !failed && (!stopped);
                if stopped && !failed && or_eos {
                    return Err(self.viol(
                        "mask_after_stop",
                        "mask_or_eos_failed",
                        format!("compute_mask_or_eos on stopped h{h} failed: {}", short(&e.to_string())),
                    ));
                }
                self.on_matcher_err(h, "mask", &e.to_string(), legal)
            }
        }
    }

    /// Step-budget accounting (C14, "per-call fuel ... set on the shared automaton"): every mask
    /// computation gets the full `step_lexer_fuel`, whatever the clones sharing the lexer did before.
    /// Black box: the shared lexer's public fuel counter is read before and after the call; if the
    /// call ran alone (no context switch in the window), found the lexer healthy and left it out of
    /// fuel, then at least `step_lexer_fuel` must have been spent inside the window. Only claimed for
    /// non-canonical tokenizers (there compute_mask does no lexer work before it resets the budget)
    /// and when the state limit (the only other way into the lexer's error state) was not reached.
    fn budget_window_open(&mut self, h: SlotId) -> Option<(usize, u64, u64)> {
        if !self.ctx.sc.budget_oracle
            || self.ctx.sc.world.canonical
            || crate::run::REAL_THREADS.load(std::sync::atomic::Ordering::Relaxed)
        {
            return None;
        }
        let s = self.slots.get_mut(&h)?;
        if !matches!(s.h, H::M(MH::R(_))) || s.failed.is_some() {
            return None;
        }
        // a cached mask is returned without touching the budget, and whatever the call does to the
        // lexer afterwards runs on what an earlier call left over: make this call compute
        if let H::M(m) = &mut s.h {
            m.invalidate_bias_cache();
        }
        let g = s.lexer_group;
        let sw0 = sched::switches_now();
        let (spent0, err0, _) = self.ctx.observe_lexer(g)?;
        if err0 {
            return None;
        }
        Some((g, sw0, spent0))
    }

    fn budget_window_close(&mut self, h: SlotId, w: (usize, u64, u64), err: Option<String>) -> VResult<()> {
        let (g, sw0, spent0) = w;
        let (spent1, err1, states1) = match self.ctx.observe_lexer(g) {
            Some(x) => x,
            None => return Ok(()),
        };
        let sw1 = sched::switches_now();
        if sw1 != sw0 {
            self.stats.probe("budget_window_interleaved");
            return Ok(());
        }
        self.stats.probe("budget_window_clean");
        // the lexer has two ways into its error state: state limit reached, or fuel at zero
        let by_states = states1 >= self.ctx.sc.world.limits.max_lexer_states;
        if !err1 || by_states || self.fuel_fired {
            return Ok(());
        }
        let f = self.ctx.sc.world.limits.step_lexer_fuel;
        let spent = spent1.saturating_sub(spent0);
        self.stats.probe("budget_exhausted_in_clean_window");
        if spent < f {
            return Err(self.viol(
                "step_budget",
                "mask_budget_short",
                format!(
                    "h{h}: compute_mask ran alone on a healthy shared lexer and left it out of fuel after spending {spent} < step_lexer_fuel {f} (counter {spent0} -> {spent1}; call returned {})",
                    err.as_deref().map(short).unwrap_or_else(|| "Ok".into())
                ),
            ));
        }
        Ok(())
    }

    pub fn check_mask_range(&mut self, h: SlotId, m: &[u32]) -> VResult<()> {
        let nv = self.ctx.n_vocab();
        // no bit at or above the vocabulary size
        for (i, w) in m.iter().enumerate() {
            let base = i * 32;
            if base + 32 > nv {
                let valid = nv.saturating_sub(base);
                let hi = if valid >= 32 { 0 } else { *w >> valid };
                if hi != 0 {
                    return Err(self.viol(
                        "mask_range",
                        "mask_bit_beyond_vocab",
                        format!("mask of h{h} has a bit >= vocab size {nv} in word {i}: {:#x}", w),
                    ));
                }
            }
        }
        Ok(())
    }

    fn op_validate(&mut self, h: SlotId, picks: &[Pick]) -> VResult<()> {
        let mask = self.current_mask(h)?;
        let group = self.mirror_group(h);
        // forced bytes as seen by the group's Rust member (the C matcher cannot report them)
        let mut forced: Vec<u8> = vec![];
        if picks.iter().any(|p| matches!(p, Pick::ForcedSplit(_))) {
            for g in &group {
                if let Some(Slot { h: H::M(m @ MH::R(_)), failed: None, .. }) = self.slots.get_mut(g) {
                    if !m.is_stopped() {
                        forced = m.compute_ff_bytes().unwrap_or_default();
                    }
                    break;
                }
            }
        }
        let mut fpos = 0usize;
        let mut toks: Vec<TokenId> = vec![];
        for p in picks {
            if let Pick::ForcedSplit(r) = p {
                let rest = &forced[fpos.min(forced.len())..];
                if rest.is_empty() {
                    continue;
                }
                let cands: Vec<u32> = (0..self.ctx.n_vocab() as u32)
                    .filter(|t| {
                        let w = self.ctx.tok_bytes(*t);
                        !w.is_empty() && w[0] != 0xff && rest.starts_with(w)
                    })
                    .collect();
                if cands.is_empty() {
                    continue;
                }
                let t = cands[(*r % cands.len() as u64) as usize];
                fpos += self.ctx.tok_bytes(t).len();
                toks.push(t);
                self.stats.probe("validate_forced_split_token");
            } else if let Some(t) = self.resolve_pick(mask.as_ref(), p) {
                toks.push(t);
            }
        }
        let nv = self.ctx.n_vocab() as u32;
        let legal = toks.iter().all(|t| *t < nv);
        let s = match self.slots.get_mut(&h) {
            Some(s) => s,
            None => return Ok(()),
        };
        let failed = s.failed.is_some();
        let hist = s.hist.clone();
        let r = match &mut s.h {
            H::M(m) => m.validate_tokens(&toks),
            _ => return Ok(()),
        };
        match r {
            Ok(n) => {
                if failed {
                    return Err(self.viol(
                        "sticky_failure",
                        "validate_after_failure",
                        format!("h{h} had failed but validate_tokens succeeded"),
                    ));
                }
                self.ev(format!("validate h{h} n={} -> {n}", toks.len()));
                // mirrors (Rust / C twins, sliced / unsliced engines) agree on validation counts
                if group.len() > 1 && self.fault_free() {
                    let key = (hist.clone(), toks.clone());
                    for g in &group {
                        if *g == h {
                            continue;
                        }
                        if let Some((k, n2)) = self.last_validate.get(g) {
                            if *k == key && *n2 != n {
                                return Err(self.viol(
                                    "mirror_equivalence",
                                    "mirror_differs:validate_count",
                                    format!("after {:?}: validate_tokens({:?}) = {n} on h{h} but {n2} on h{g}", hist, toks),
                                ));
                            }
                        }
                    }
                    self.last_validate.insert(h, (key, n));
                }
                Ok(())
            }
            Err(e) => {
                if !legal {
                    self.stats.fault("token_out_of_range");
                }
                self.on_matcher_err(h, "validate", &e.to_string(), legal && !failed)
            }
        }
    }

    fn op_query(&mut self, h: SlotId, what: &str) -> VResult<()> {
        let s = match self.slots.get_mut(&h) {
            Some(s) => s,
            None => return Ok(()),
        };
        let failed = s.failed.is_some();
        let m = match &mut s.h {
            H::M(m) => m,
            _ => return Ok(()),
        };
        let line = match what {
            "acc" => match m.is_accepting() {
                Ok(b) => {
                    if failed {
                        return Err(self.viol(
                            "sticky_failure",
                            "accepting_after_failure",
                            format!("h{h} had failed but is_accepting succeeded"),
                        ));
                    }
                    format!("acc h{h} {b}")
                }
                Err(e) => {
                    let e = e.to_string();
                    self.on_matcher_err(h, "is_accepting", &e, !failed)?;
                    return Ok(());
                }
            },
            "ffb" => {
                let b = m.compute_ff_bytes().unwrap_or_default();
                if !b.is_empty() {
                    self.stats.probe("forced_bytes_nonempty");
                }
                format!("ffb h{h} {}", hex(&b))
            }
            "fft" => {
                let t = m.compute_ff_tokens();
                if !t.is_empty() {
                    self.stats.probe("ff_tokens_nonempty");
                }
                format!("fft h{h} {:?}", t)
            }
            "inv" => {
                m.invalidate_bias_cache();
                self.stats.fault("cache_loss");
                format!("inv h{h}")
            }
            _ => unreachable!(),
        };
        self.ev(line);
        Ok(())
    }

    /// Resolve a list of picks into concrete tokens by walking a scratch deep clone.
    fn resolve_sequence(&mut self, h: SlotId, picks: &[Pick], past_stop: bool) -> VResult<Vec<TokenId>> {
        if picks.len() == 1 {
            let mask = if matches!(picks[0], Pick::Tok(_) | Pick::Eos | Pick::EosAlt(_) | Pick::OutOfRange(_)) {
                None
            } else {
                self.current_mask(h)?
            };
            return Ok(self
                .resolve_pick(mask.as_ref(), &picks[0])
                .into_iter()
                .collect());
        }
        let nv = self.ctx.n_vocab();
        let mut out = vec![];
        let mut scratch = match self.slots.get_mut(&h) {
            Some(s) => match &mut s.h {
                H::M(m) => m.clone_handle(true),
                _ => return Ok(out),
            },
            None => return Ok(out),
        };
        let mut last_mask: Option<Vec<u32>> = None;
        for p in picks {
            let mask = if scratch.is_stopped() || scratch.is_error() {
                // try_consume_tokens batches keep going past the stop (the sampler produced the
                // whole batch from earlier masks): the call has to stop counting there
                if past_stop {
                    last_mask.clone()
                } else {
                    None
                }
            } else {
                scratch.compute_mask(nv).ok()
            };
            if mask.is_some() {
                last_mask = mask.clone();
            }
            match self.resolve_pick(mask.as_ref(), p) {
                Some(t) => {
                    out.push(t);
                    let _ = scratch.consume_tokens(&[t]);
                }
                None => break,
            }
        }
        Ok(out)
    }

    fn op_commit(
        &mut self,
        h: SlotId,
        picks: &[Pick],
        fuel_at: Option<u32>,
        try_consume: bool,
    ) -> VResult<()> {
        if !matches!(self.slots.get(&h).map(|s| &s.h), Some(H::M(_))) {
            return Ok(());
        }
        let group = self.mirror_group(h);
        // keep long runs productive: an honest sampler facing a finished (not failed) engine
        // restarts it by rolling back a little (this is also the rollback-after-stop path)
        if self.ctx.sc.auto_restart && picks.iter().all(|p| p.is_honest()) {
            let (stopped, failed, n) = {
                let s = self.slots.get_mut(&h).unwrap();
                let st = match &mut s.h {
                    H::M(m) => m.is_stopped(),
                    _ => false,
                };
                (st, s.failed.is_some(), s.hist.len())
            };
            if stopped && !failed && n > 0 {
                let k = 1 + (n as u64 * 7 + self.step as u64) as usize % n.min(3);
                self.stats.probe("auto_restart_after_stop");
                for g in group.clone() {
                    self.rollback_on(g, k, false)?;
                }
            }
        }
        let toks = self.resolve_sequence(h, picks, try_consume)?;
        if toks.is_empty() {
            self.ev(format!("commit h{h} nothing-to-pick"));
            return Ok(());
        }
        let nv = self.ctx.n_vocab() as u32;
        // is this a legal request? (all tokens in range, allowed by the mask at their position)
        let honest = picks.iter().all(|p| p.is_honest());
        for p in picks {
            match p {
                Pick::Outside(_) => self.stats.fault("token_not_in_mask"),
                Pick::OutOfRange(_) => self.stats.fault("token_out_of_range"),
                _ => {}
            }
        }
        for g in group {
            self.commit_on(g, &toks, honest, fuel_at, try_consume, nv)?;
        }
        Ok(())
    }

    fn commit_on(
        &mut self,
        h: SlotId,
        toks: &[TokenId],
        honest: bool,
        fuel_at: Option<u32>,
        try_consume: bool,
        nv: u32,
    ) -> VResult<()> {
        let eos = self.ctx.world.eos();
        let (failed, stopped) = match self.slots.get_mut(&h) {
            Some(s) => match &mut s.h {
                H::M(m) => (s.failed.is_some(), m.is_stopped()),
                _ => return Ok(()),
            },
            None => return Ok(()),
        };
        if stopped && !failed {
            self.stats.fault("call_after_stop");
        }
        // try_consume_tokens = token by token: stop counting at the first token that is not
        // acceptable, and at a stop (the stop is latched, nothing after it is consumed)
        let reference = if try_consume && !failed && !stopped && self.fault_free() && fuel_at.is_none() {
            let s = self.slots.get_mut(&h).unwrap();
            match &mut s.h {
                H::M(m) => {
                    let mut c = m.clone_handle(true);
                    let mut n = 0usize;
                    let mut clean = true;
                    for t in toks {
                        if c.is_stopped() || c.is_error() {
                            break;
                        }
                        match c.validate_tokens(&[*t]) {
                            Ok(1) => {}
                            Ok(_) => break,
                            Err(_) => {
                                clean = false;
                                break;
                            }
                        }
                        if c.consume_tokens(&[*t]).is_err() {
                            clean = false;
                            break;
                        }
                        n += 1;
                    }
                    if clean && !c.is_error() {
                        Some((n, c.is_stopped()))
                    } else {
                        None
                    }
                }
                _ => None,
            }
        } else {
            None
        };
        let r: Result<usize> = self.with_fuel_fault(fuel_at, |me| {
            let s = me.slots.get_mut(&h).unwrap();
            match &mut s.h {
                H::M(m) => {
                    if try_consume {
                        m.try_consume_tokens(toks)
                    } else {
                        m.consume_tokens(toks).map(|_| toks.len())
                    }
                }
                _ => unreachable!(),
            }
        });
        self.stats.commits += 1;
        match r {
            Ok(n) => {
                if failed {
                    return Err(self.viol(
                        "sticky_failure",
                        "commit_after_failure",
                        format!("h{h} had failed but consume_tokens succeeded"),
                    ));
                }
                if stopped && n > 0 {
                    return Err(self.viol(
                        "commit_after_stop",
                        "commit_after_stop",
                        format!("h{h} was stopped but accepted {n} more token(s) {:?}", &toks[..n]),
                    ));
                }
                if let Some(max) = self.ctx.sc.world.max_tokens {
                    let used = self.slots[&h].hist.len() + n;
                    if used > max && matches!(self.slots[&h].h, H::M(MH::R(_))) {
                        return Err(self.viol(
                            "token_budget",
                            "budget_exceeded",
                            format!("h{h} holds {used} tokens with max_tokens={max}"),
                        ));
                    }
                }
                if toks[..n].iter().any(|t| *t >= nv) {
                    return Err(self.viol(
                        "token_range",
                        "out_of_range_accepted",
                        format!("h{h} accepted an out-of-range token id in {:?}", toks),
                    ));
                }
                if let Some((n_ref, stopped_ref)) = reference {
                    let s = self.slots.get_mut(&h).unwrap();
                    let now_stopped = match &mut s.h {
                        H::M(m) => m.is_stopped(),
                        _ => false,
                    };
                    if toks.len() > n_ref {
                        self.stats.probe("try_consume_batch_cut_short");
                    }
                    if n != n_ref || now_stopped != stopped_ref {
                        return Err(self.viol(
                            "try_consume_stepwise",
                            "try_consume_differs_from_stepwise",
                            format!(
                                "h{h} try_consume_tokens({:?}) returned {n} stopped={now_stopped}; token by token: {n_ref} stopped={stopped_ref}",
                                toks
                            ),
                        ));
                    }
                }
                if honest && try_consume && n < toks.len() && !stopped {
                    // an honest sequence resolved on a scratch clone must be fully consumable,
                    // unless the engine stopped in the middle (try_consume checks stop after each token)
                    let s = self.slots.get_mut(&h).unwrap();
                    let now_stopped = match &mut s.h {
                        H::M(m) => m.is_stopped(),
                        _ => false,
                    };
                    if !now_stopped && self.fault_free() {
                        return Err(self.viol(
                            "mask_token_rejected",
                            "try_consume_short",
                            format!("h{h} try_consume_tokens took {n} of {} mask-allowed tokens {:?}", toks.len(), toks),
                        ));
                    }
                }
                let s = self.slots.get_mut(&h).unwrap();
                s.hist.extend_from_slice(&toks[..n]);
                s.last_mask = None;
                let hist = s.hist.clone();
                let multi = toks[..n]
                    .iter()
                    .any(|t| self.ctx.tok_bytes(*t).len() > 1 && !self.ctx.is_special(*t));
                if multi {
                    self.stats.probe("multibyte_token_committed");
                }
                if toks[..n].iter().any(|t| self.ctx.world.is_eos(*t)) {
                    self.stats.probe("eos_committed");
                    if toks[..n].iter().any(|t| self.ctx.world.is_eos(*t) && *t != eos) {
                        self.stats.probe("secondary_eos_committed");
                    }
                }
                for t in &toks[..n] {
                    let b = self.ctx.tok_bytes(*t);
                    if !self.ctx.is_special(*t) && std::str::from_utf8(b).is_err() {
                        self.stats.probe("token_not_utf8_aligned");
                        break;
                    }
                }
                self.ev(format!("commit h{h} {:?} ok n={n}", toks));
                self.state_hash(&hist);
                Ok(())
            }
            Err(e) => {
                // legal iff the handle is live and the tokens were honestly sampled from its masks
                // (and fuel did not run out in the middle of this very operation: the lexer then
                // reports dead transitions, which surface as "byte fails parse")
                // Tight limits (fault-injecting class): fuel left over from the previous mask can run
                // out inside a commit; the message is the same "byte fails parse".
                // (only the lexer budgets matter here: Earley item budgets apply to mask / forced-byte
                // computations, never to a commit)
                let dl = LimitsSpec::default();
                let l = &self.ctx.sc.world.limits;
                let tight = !self.fault_free()
                    && (l.step_lexer_fuel != dl.step_lexer_fuel
                        || l.max_lexer_states != dl.max_lexer_states
                        || l.initial_lexer_fuel != dl.initial_lexer_fuel);
                if tight && honest && !failed && !stopped {
                    self.stats.probe("commit_failed_under_tight_limits");
                }
                if let Some(max) = self.ctx.sc.world.max_tokens {
                    if e.to_string().contains("max_tokens_total") && !failed {
                        // the budget is a function of the number of tokens held: every committed token
                        // costs one, rollback refunds one per token taken back
                        let held = self.slots[&h].hist.len();
                        if held + toks.len() <= max {
                            return Err(self.viol(
                                "token_budget",
                                "budget_exhausted_early",
                                format!("h{h}: max_tokens_total reached while holding {held} tokens (+{} offered), max_tokens={max}", toks.len()),
                            ));
                        }
                        self.stats.probe("token_budget_reached");
                    }
                }
                let legal = honest && !failed && !stopped && !self.fuel_fired && !tight;
                if legal && self.fault_free() {
                    let cls = classify_err(&e.to_string());
                    if cls == ErrClass::Misuse {
                        return Err(self.viol(
                            "mask_token_rejected",
                            "commit_rejected_mask_token",
                            format!("h{h} rejected mask-allowed token(s) {:?}: {}", toks, short(&e.to_string())),
                        ));
                    }
                }
                self.on_matcher_err(h, "commit", &e.to_string(), legal)?;
                // consume_tokens may have consumed a prefix before failing; the handle is failed anyway
                Ok(())
            }
        }
    }

    fn op_consume_ff(&mut self, h: SlotId) -> VResult<()> {
        let s = match self.slots.get_mut(&h) {
            Some(s) => s,
            None => return Ok(()),
        };
        if s.failed.is_some() {
            return Ok(());
        }
        let m = match &mut s.h {
            H::M(MH::R(m)) => m,
            _ => return Ok(()),
        };
        if m.is_stopped() {
            return Ok(());
        }
        let toks = m.consume_ff_tokens();
        let is_err = m.is_error();
        if is_err {
            let e = m.get_error().unwrap_or_default();
            // ff tokens are "always accepted when committed"
            if classify_err(&e) == ErrClass::Misuse {
                return Err(self.viol(
                    "ff_tokens_accepted",
                    "ff_tokens_rejected",
                    format!("h{h} consume_ff_tokens {:?} rejected: {}", toks, short(&e)),
                ));
            }
            return self.on_matcher_err(h, "consume_ff", &e, true);
        }
        s.hist.extend_from_slice(&toks);
        s.last_mask = None;
        if !toks.is_empty() {
            self.stats.probe("ff_tokens_consumed");
        }
        let hist = s.hist.clone();
        self.ev(format!("consume_ff h{h} {:?}", toks));
        self.state_hash(&hist);
        Ok(())
    }

    fn op_rollback(&mut self, h: SlotId, k: usize, reset: bool) -> VResult<()> {
        for g in self.mirror_group(h) {
            self.rollback_on(g, k, reset)?;
        }
        Ok(())
    }

    fn rollback_on(&mut self, h: SlotId, k: usize, reset: bool) -> VResult<()> {
        let s = match self.slots.get_mut(&h) {
            Some(s) => s,
            None => return Ok(()),
        };
        let failed = s.failed.is_some();
        let n = s.hist.len();
        // honest rollbacks (k <= 100) are clamped to the history; larger k are abusive on purpose
        let k = if k <= 100 { k.min(n) } else { k };
        let eos_all = self.ctx.world.eos_all();
        let kk = if reset { n } else { k };
        let over_eos = kk > 0 && kk <= n && s.hist[n - kk..].iter().any(|t| eos_all.contains(t));
        // ordinary (text) tokens in the rolled-back range that a <[...]> expression of the grammar names
        let rolled: Vec<TokenId> = if kk > 0 && kk <= n { s.hist[n - kk..].to_vec() } else { vec![] };
        let m = match &mut s.h {
            H::M(m) => m,
            _ => return Ok(()),
        };
        let was_stopped = m.is_stopped();
        let r = if reset { m.reset() } else { m.rollback(k) };
        self.stats.rollbacks += 1;
        let keff = if reset { n } else { k };
        match r {
            Ok(()) => {
                if failed {
                    return Err(self.viol(
                        "sticky_failure",
                        "rollback_after_failure",
                        format!("h{h} had failed but rollback succeeded"),
                    ));
                }
                if keff > n {
                    return Err(self.viol(
                        "rollback_too_far",
                        "rollback_too_far_accepted",
                        format!("h{h} accepted rollback of {keff} with only {n} tokens"),
                    ));
                }
                let s = self.slots.get_mut(&h).unwrap();
                s.hist.truncate(n - keff);
                s.last_mask = None;
                if keff > 0 {
                    if keff == n {
                        self.stats.probe("rollback_to_empty");
                    }
                    if over_eos {
                        self.stats.probe("rollback_over_eos");
                    }
                    if was_stopped {
                        self.stats.probe("rollback_after_stop");
                    }
                }
                self.ev(format!("rollback h{h} {keff} ok"));
                let over_named_text_token = !self.ctx.tokref_ranges.is_empty()
                    && rolled.iter().any(|t| {
                        (*t as usize) < self.ctx.n_vocab()
                            && !self.ctx.is_special(*t)
                            && self.ctx.tokref_ranges.iter().any(|(lo, hi, neg)| {
                                let inside = (*t as u64) >= *lo && (*t as u64) <= *hi;
                                inside != *neg
                            })
                    });
                if keff > 0 && over_named_text_token && self.fault_free_or_c20() {
                    // known finding F17: an ordinary token that the grammar consumed through a token
                    // range is stored as \xFF[id] in the parser but rolled back by its own byte length
                    self.stats.probe("rollback_over_text_token_named_by_range");
                    if let Err(mut v) = self.chk_fresh(h) {
                        if v.oracle == "fresh_equivalence" {
                            v.signature = "rollback_over_text_token_in_token_range".into();
                            v.detail = format!("after rolling back over an ordinary token named by a <[...]> expression of the grammar: {}", v.detail);
                        }
                        return Err(v);
                    }
                }
                if keff > 0 && over_eos && self.ctx.tokref && self.fault_free_or_c20() {
                    // known finding F5: an end-of-sequence id that the *grammar* consumed as a special
                    // token (<[id]> / <|name|>) is rolled back as 0 bytes. Only grammars that reference
                    // special tokens can do that; for them the comparison with the fresh engine is made
                    // right here and carries its own signature (everywhere else rollback over EOS is
                    // judged by the ordinary oracles).
                    if let Err(mut v) = self.chk_fresh(h) {
                        if v.oracle == "fresh_equivalence" {
                            v.signature = "rollback_over_grammar_eos".into();
                            v.detail = format!("after rolling back over an end-of-sequence id in a grammar with special-token references: {}", v.detail);
                        }
                        return Err(v);
                    }
                }
                Ok(())
            }
            Err(e) => {
                let legal = !failed && keff <= n;
                if keff > n {
                    self.stats.fault("rollback_too_far");
                }
                self.on_matcher_err(h, "rollback", &e.to_string(), legal)
            }
        }
    }

    fn fault_free_or_c20(&self) -> bool {
        self.fault_free() || self.ctx.sc.property == "C20"
    }

    fn op_trigger_panic(&mut self, h: SlotId) -> VResult<()> {
        let s = match self.slots.get_mut(&h) {
            Some(s) => s,
            None => return Ok(()),
        };
        let group = s.lexer_group;
        let failed = s.failed.is_some();
        let m = match &mut s.h {
            H::M(m @ MH::R(_)) => m,
            _ => return Ok(()),
        };
        // mark the group first: in the real-thread supplement a sibling may see the poisoned lock
        // before this call returns
        if !failed {
            self.ctx.poisoned.lock().unwrap().push(group);
            self.stats.fault("interruption_in_critical_section");
        }
        let r = m.test_trigger_lexer_error();
        match r {
            Ok(()) => Err(self.viol(
                "sticky_failure",
                "interruption_not_reported",
                format!("h{h}: interruption inside the critical section was not reported"),
            )),
            Err(e) => {
                let s = self.slots.get_mut(&h).unwrap();
                let is_err = match &mut s.h {
                    H::M(m) => m.is_error(),
                    _ => true,
                };
                if !is_err {
                    return Err(self.viol(
                        "sticky_failure",
                        "interruption_not_latched",
                        format!("h{h}: interrupted handle does not report failure"),
                    ));
                }
                if s.failed.is_none() {
                    s.failed = Some(e.to_string());
                }
                s.last_mask = None;
                self.ev(format!("trigger_panic h{h}"));
                Ok(())
            }
        }
    }
}

pub fn hash_words(w: &[u32]) -> u64 {
    let mut h = 0xcbf2_9ce4_8422_2325u64;
    for x in w {
        h ^= *x as u64;
        h = h.wrapping_mul(0x1000_0000_01b3);
    }
    h
}

pub fn op_name(op: &Op) -> String {
    let v = serde_json::to_value(op).unwrap();
    v.get("op")
        .and_then(|x| x.as_str())
        .unwrap_or("?")
        .to_string()
}
