//! World construction: vocabulary, tokenizer stub, grammar, knobs.
//! Everything in a `WorldSpec` is plain data so that a replay file is self-contained.

use std::collections::HashMap;
use std::sync::Arc;

use anyhow::{anyhow, bail, Result};
use llguidance::api::{ParserLimits, TopLevelGrammar};
use llguidance::earley::SlicedBiasComputer;
use llguidance::toktrie::{InferenceCapabilities, TokEnv, TokRxInfo, TokTrie, TokenId, TokenizerEnv};
use llguidance::{Matcher, ParserFactory, TokenParser};
use serde::{Deserialize, Serialize};

use crate::corpus::{self, GKind};
use crate::rng::Rng;

pub fn hex(b: &[u8]) -> String {
    let mut s = String::with_capacity(b.len() * 2);
    for x in b {
        s.push_str(&format!("{:02x}", x));
    }
    s
}

pub fn unhex(s: &str) -> Vec<u8> {
    (0..s.len() / 2)
        .map(|i| u8::from_str_radix(&s[2 * i..2 * i + 2], 16).unwrap())
        .collect()
}

#[derive(Clone, Debug, Serialize, Deserialize, PartialEq, Eq)]
#[serde(rename_all = "lowercase")]
pub enum TokMode {
    Greedy,
    Bpe,
}

#[derive(Clone, Debug, Serialize, Deserialize)]
pub struct VocabSpec {
    pub kind: String, // byte | synth | bpe
    /// hex-encoded token bytes, id = index
    pub words: Vec<String>,
    pub eos: u32,
    pub mode: TokMode,
    /// additional EOS token ids (multi-EOS vocabularies)
    #[serde(default, skip_serializing_if = "Vec::is_empty")]
    pub eos_extra: Vec<u32>,
}

#[derive(Clone, Debug, Serialize, Deserialize)]
pub struct LimitsSpec {
    pub max_items_in_row: usize,
    pub initial_lexer_fuel: u64,
    pub step_lexer_fuel: u64,
    pub step_max_items: usize,
    pub max_lexer_states: usize,
    pub max_grammar_size: usize,
    pub precompute_large_lexemes: bool,
}

impl Default for LimitsSpec {
    fn default() -> Self {
        let d = ParserLimits::default();
        LimitsSpec {
            max_items_in_row: d.max_items_in_row,
            initial_lexer_fuel: d.initial_lexer_fuel,
            step_lexer_fuel: d.step_lexer_fuel,
            step_max_items: d.step_max_items,
            max_lexer_states: d.max_lexer_states,
            max_grammar_size: d.max_grammar_size,
            precompute_large_lexemes: d.precompute_large_lexemes,
        }
    }
}

impl LimitsSpec {
    pub fn to_limits(&self) -> ParserLimits {
        ParserLimits {
            max_items_in_row: self.max_items_in_row,
            initial_lexer_fuel: self.initial_lexer_fuel,
            step_lexer_fuel: self.step_lexer_fuel,
            step_max_items: self.step_max_items,
            max_lexer_states: self.max_lexer_states,
            max_grammar_size: self.max_grammar_size,
            precompute_large_lexemes: self.precompute_large_lexemes,
            verbose_errors: false,
        }
    }
    pub fn is_default(&self) -> bool {
        let d = LimitsSpec::default();
        serde_json::to_string(self).unwrap() == serde_json::to_string(&d).unwrap()
    }
}

#[derive(Clone, Debug, Serialize, Deserialize)]
pub struct WorldSpec {
    pub grammar_id: String,
    pub grammar_kind: GKind,
    pub grammar_text: String,
    pub vocab: VocabSpec,
    pub canonical: bool,
    /// None = factory default (general JSON slices); Some(list) = explicit list (empty = no slices)
    pub slices: Option<Vec<String>>,
    pub limits: LimitsSpec,
    /// build reference engines by full rebuild (true) or by deep-cloning a pristine prototype (false)
    pub fresh_rebuild: bool,
    /// TopLevelGrammar.max_tokens: total token budget of a Rust engine (refunded by rollback)
    #[serde(default, skip_serializing_if = "Option::is_none")]
    pub max_tokens: Option<usize>,
    /// hex of a prompt every Rust engine of this world is started with (TokenParser::process_prompt:
    /// token healing of the prompt's tail; canonical tokenizers only)
    #[serde(default, skip_serializing_if = "Option::is_none")]
    pub prompt: Option<String>,
}

// ------------------------------------------------------------------ tokenizer stub

pub struct SimTokEnv {
    trie: TokTrie,
    canonical: bool,
    mode: TokMode,
    ranks: HashMap<Vec<u8>, u32>,
}

impl SimTokEnv {
    fn bpe(&self, piece: &[u8], out: &mut Vec<TokenId>) {
        // classic rank-based byte pair merge (ranks = token ids, lower merges first)
        if piece.is_empty() {
            return;
        }
        let mut parts: Vec<(usize, usize)> = (0..piece.len()).map(|i| (i, i + 1)).collect();
        loop {
            let mut best: Option<(u32, usize)> = None;
            for i in 0..parts.len().saturating_sub(1) {
                let s = parts[i].0;
                let e = parts[i + 1].1;
                if let Some(&r) = self.ranks.get(&piece[s..e]) {
                    if best.is_none() || r < best.unwrap().0 {
                        best = Some((r, i));
                    }
                }
            }
            match best {
                Some((_, i)) => {
                    parts[i].1 = parts[i + 1].1;
                    parts.remove(i + 1);
                }
                None => break,
            }
        }
        for (s, e) in parts {
            match self.ranks.get(&piece[s..e]) {
                Some(&r) => out.push(r),
                None => {
                    // byte not in vocabulary: skip (same policy as greedy_tokenize)
                }
            }
        }
    }
}

impl TokenizerEnv for SimTokEnv {
    fn tok_trie(&self) -> &TokTrie {
        &self.trie
    }
    fn tokenize_bytes(&self, s: &[u8]) -> Vec<TokenId> {
        match self.mode {
            TokMode::Greedy => self.trie.greedy_tokenize(s),
            TokMode::Bpe => {
                // GPT-2 style pre-split (letters with an optional leading space, digits, other
                // non-space, spaces), pieces capped at 48 bytes, then rank-based merging
                let mut out = vec![];
                let class = |b: u8| -> u8 {
                    if b.is_ascii_alphabetic() || b >= 0x80 {
                        1
                    } else if b.is_ascii_digit() {
                        2
                    } else if b == b' ' || b == b'\n' || b == b'\t' || b == b'\r' {
                        3
                    } else {
                        4
                    }
                };
                let mut i = 0;
                while i < s.len() {
                    let start = i;
                    let mut c = class(s[i]);
                    i += 1;
                    if c == 3 && s[start] == b' ' && i < s.len() && class(s[i]) == 1 {
                        // a single leading space sticks to the following word
                        c = 1;
                    }
                    while i < s.len() && class(s[i]) == c && i - start < 48 {
                        i += 1;
                    }
                    self.bpe(&s[start..i], &mut out);
                }
                out
            }
        }
    }
    fn tokenize_is_canonical(&self) -> bool {
        self.canonical
    }
}

pub fn make_tok_env(v: &VocabSpec, canonical: bool) -> TokEnv {
    let words: Vec<Vec<u8>> = v.words.iter().map(|w| unhex(w)).collect();
    let mut trie = TokTrie::from(&TokRxInfo::new(words.len() as u32, v.eos), &words);
    if !v.eos_extra.is_empty() {
        let mut all = vec![v.eos];
        all.extend_from_slice(&v.eos_extra);
        trie = trie.with_eos_tokens(&all);
    }
    let mut ranks = HashMap::new();
    if v.mode == TokMode::Bpe {
        for (i, w) in words.iter().enumerate() {
            if !w.is_empty() && w[0] != 0xff {
                ranks.entry(w.clone()).or_insert(i as u32);
            }
        }
    }
    Arc::new(SimTokEnv {
        trie,
        canonical,
        mode: v.mode.clone(),
        ranks,
    })
}

// ------------------------------------------------------------------ vocabularies

pub const SPECIALS: &[&str] = &["<|tool|>", "<|end|>", "<|pad|>", "<|eos|>"];

fn push_specials(words: &mut Vec<Vec<u8>>) -> u32 {
    for s in SPECIALS {
        let mut w = vec![0xffu8];
        w.extend_from_slice(s.as_bytes());
        words.push(w);
    }
    (words.len() - 1) as u32
}

/// Pad a vocabulary with filler tokens (byte strings no grammar produces) in front of the special
/// tokens, so that these get the ids `base..base+4`: ids at a power of ten are where the decimal
/// `\xFF[id]` spelling of a special token changes length.
pub fn pad_vocab(v: &mut VocabSpec, base: usize) {
    let n = v.words.len();
    let cur = n - SPECIALS.len();
    if cur >= base {
        return;
    }
    let specials: Vec<String> = v.words.split_off(cur);
    let mut k = 0usize;
    while v.words.len() < base {
        // 0xF5.. never occurs in UTF-8; three bytes keep them out of the way of byte-level grammars too
        let w = vec![0xf5u8, 0x80 + (k / 64) as u8 % 64, 0x80 + (k % 64) as u8];
        v.words.push(hex(&w));
        k += 1;
    }
    v.words.extend(specials);
    let shift = (base - cur) as u32;
    v.eos += shift;
    for e in v.eos_extra.iter_mut() {
        *e += shift;
    }
}

pub fn byte_vocab() -> VocabSpec {
    let mut words: Vec<Vec<u8>> = (0..=255u8).map(|b| vec![b]).collect();
    let eos = push_specials(&mut words);
    VocabSpec {
        kind: "byte".into(),
        words: words.iter().map(|w| hex(w)).collect(),
        eos,
        mode: TokMode::Greedy,
        eos_extra: vec![],
    }
}

static R50K: &str = include_str!("../../data/r50k_3000.hex");

pub fn bpe_vocab(rng: &mut Rng) -> VocabSpec {
    let k = match rng.below(4) {
        0 => rng.range(300, 420),
        1 => rng.range(500, 1000),
        2 => 32 * rng.range(10, 60) - 4 + rng.below(3), // specials land on a 32 boundary +-1
        _ => rng.range(1000, 2000),
    };
    let mut words: Vec<Vec<u8>> = R50K.lines().take(k).map(unhex).collect();
    let eos = push_specials(&mut words);
    VocabSpec {
        kind: "bpe".into(),
        words: words.iter().map(|w| hex(w)).collect(),
        eos,
        mode: if rng.chance(0.7) {
            TokMode::Bpe
        } else {
            TokMode::Greedy
        },
        eos_extra: vec![],
    }
}

/// Synthetic multi-byte vocabulary built from sample outputs of the grammar:
/// substrings that span lexemes, end inside UTF-8 characters, are prefixes of each other,
/// duplicates, and long tokens for each slice-regex length class.
pub fn synth_vocab(rng: &mut Rng, samples: &[Vec<u8>]) -> VocabSpec {
    let mut words: Vec<Vec<u8>> = (0..=255u8).map(|b| vec![b]).collect();
    let target_extra = match rng.below(3) {
        0 => rng.range(4, 60),
        1 => 32 * rng.range(9, 20) - 256 - SPECIALS.len() - 1 + rng.below(3),
        _ => rng.range(60, 440),
    };
    let mut extra: Vec<Vec<u8>> = vec![];
    let mut tries = 0;
    while extra.len() < target_extra && tries < target_extra * 20 {
        tries += 1;
        if samples.is_empty() {
            break;
        }
        let s = rng.pick(samples);
        if s.len() < 2 {
            continue;
        }
        let maxl = match rng.below(10) {
            0..=5 => 4,
            6..=7 => 8,
            8 => 16,
            _ => 40,
        };
        let len = rng.range(2, maxl.min(s.len()).max(2));
        if len > s.len() {
            continue;
        }
        let start = rng.below(s.len() - len + 1);
        let w = s[start..start + len].to_vec();
        if w.contains(&0xff) {
            continue;
        }
        let dup_ok = rng.chance(0.03);
        if !dup_ok && extra.contains(&w) {
            continue;
        }
        // also add a proper prefix sometimes (prefix chains)
        if w.len() > 2 && rng.chance(0.2) {
            let p = w[..rng.range(2, w.len() - 1)].to_vec();
            if !extra.contains(&p) {
                extra.push(p);
            }
        }
        extra.push(w);
    }
    // "noise" tokens: random recombinations of the bytes the grammar uses (length 2-4). Unlike the
    // substrings above they mostly do NOT continue grammatically after their first bytes, which is
    // what exposes a mask that lets a token through on the strength of its prefix.
    let alphabet: Vec<u8> = samples
        .iter()
        .flatten()
        .copied()
        .filter(|b| *b != 0xff && *b < 0x80)
        .collect();
    if !alphabet.is_empty() {
        let n_noise = (target_extra / 3).clamp(4, 80);
        for _ in 0..n_noise {
            let l = rng.range(2, 4);
            let w: Vec<u8> = (0..l).map(|_| *rng.pick(&alphabet)).collect();
            if !extra.contains(&w) {
                extra.push(w);
            }
        }
    }
    // long generic tokens so that every slice length class is populated
    let alpha = b"abcdefghijklmnopqrstuvwxyz 0123456789";
    for &l in &[11usize, 12, 18, 30, 31, 33, 48] {
        if rng.chance(0.6) {
            let off = rng.below(alpha.len());
            let w: Vec<u8> = (0..l).map(|i| alpha[(off + i * 7) % alpha.len()]).collect();
            extra.push(w);
        }
    }
    // multi-byte UTF-8 pieces
    for s in ["é", "α", "日", "本", "語", "。"] {
        if rng.chance(0.4) {
            let b = s.as_bytes();
            extra.push(b.to_vec());
            if b.len() > 2 {
                extra.push(b[..2].to_vec());
                extra.push(b[1..].to_vec());
            }
        }
    }
    // runs of one multi-byte character: length in characters and length in bytes differ
    if rng.chance(0.3) {
        for s in ["é", "日"] {
            for k in [2usize, 3, 5, 6, 7, 9, 10, 11, 16] {
                if rng.chance(0.5) {
                    extra.push(s.repeat(k).into_bytes());
                }
            }
        }
    }
    // second ids for single bytes (byte-fallback tokens <0xNN> next to ordinary one-character tokens)
    if !alphabet.is_empty() && rng.chance(0.3) {
        for _ in 0..rng.range(1, 6) {
            extra.push(vec![*rng.pick(&alphabet)]);
        }
    }
    rng.shuffle(&mut extra);
    words.extend(extra);
    let eos = push_specials(&mut words);
    VocabSpec {
        kind: "synth".into(),
        words: words.iter().map(|w| hex(w)).collect(),
        eos,
        mode: TokMode::Greedy,
        eos_extra: vec![],
    }
}

// ------------------------------------------------------------------ grammar

pub fn instantiate_grammar_text(text: &str, vocab: &VocabSpec) -> String {
    // special-token id placeholders (tokref grammars): @S0@.. = ids of SPECIALS
    let n = vocab.words.len();
    let base = n - SPECIALS.len();
    let mut t = text.to_string();
    for i in 0..SPECIALS.len() {
        t = t.replace(&format!("@S{}@", i), &format!("{}", base + i));
    }
    t
}

pub fn top_level_grammar(kind: GKind, text: &str) -> Result<TopLevelGrammar> {
    Ok(match kind {
        GKind::Lark => TopLevelGrammar::from_lark(text.to_string()),
        GKind::Regex => TopLevelGrammar::from_regex(text),
        GKind::Json => TopLevelGrammar::from_json_schema(serde_json::from_str(text)?),
    })
}

pub const SLICE_POOL: &[&str] = &[
    r#"[a-z]{1,8}"#,
    r#"[^"\\\x00-\x1F\x7F]{1,10}"#,
    r#"[^"\\\x00-\x1F\x7F]{1,30}"#,
    r#"[^"\\\x00-\x1F\x7F]+"#,
    r#"[0-9]+"#,
    r#"[ \t\n]+"#,
    r#"[a-zA-Z0-9_]+"#,
    r#"[a-z ]{2,}"#,
    r#"(.|\n)+"#,
    r#"[A-Z]{1,8}"#,
    r#"[A-Z]{1,3}"#,
    r#"[a-z]{1,3}"#,
    r#"[0-9]{1,3}"#,
    r#"[A-Za-z]{1,4}"#,
    r#"[a-z]+"#,
];

// ------------------------------------------------------------------ world

pub struct World {
    pub spec: WorldSpec,
    pub tok_env: TokEnv,
    pub factory: ParserFactory,
    pub grammar: TopLevelGrammar,
    pub vocab_words: Vec<Vec<u8>>,
    proto: std::sync::Mutex<HashMap<String, TokenParser>>,
}

pub fn make_factory(
    tok_env: &TokEnv,
    slices: &Option<Vec<String>>,
    limits: &LimitsSpec,
    ff_tokens: bool,
) -> Result<ParserFactory> {
    let caps = InferenceCapabilities {
        ff_tokens,
        backtrack: false,
        conditional_ff_tokens: false,
        fork: false,
    };
    let sl = match slices {
        None => SlicedBiasComputer::general_slices(),
        Some(l) => l.clone(),
    };
    // every other explicit list (decided by a hash of the list, so that it is a function of the
    // scenario) is installed through ParserFactory::with_slices() on a factory that was built
    // with another list: nothing of the first list may survive in the derived factory
    let derived = slices.is_some() && crate::rng::fnv(&sl.join("\u{1}")) % 2 == 0;
    let mut f = if derived {
        let first: Vec<String> = if sl.len() <= 3 {
            SlicedBiasComputer::general_slices()
        } else {
            SLICE_POOL.iter().rev().take(sl.len()).map(|s| s.to_string()).collect()
        };
        ParserFactory::new(tok_env, caps, &first)?.with_slices(&sl)?
    } else {
        ParserFactory::new(tok_env, caps, &sl)?
    };
    *f.limits_mut() = limits.to_limits();
    f.quiet();
    Ok(f)
}

impl World {
    pub fn build(spec: &WorldSpec) -> Result<World> {
        let tok_env = make_tok_env(&spec.vocab, spec.canonical);
        let factory = make_factory(&tok_env, &spec.slices, &spec.limits, false)?;
        let mut grammar = top_level_grammar(spec.grammar_kind, &spec.grammar_text)?;
        grammar.max_tokens = spec.max_tokens;
        Ok(World {
            spec: spec.clone(),
            tok_env,
            factory,
            grammar,
            vocab_words: spec.vocab.words.iter().map(|w| unhex(w)).collect(),
            proto: Default::default(),
        })
    }

    pub fn n_vocab(&self) -> usize {
        self.vocab_words.len()
    }

    pub fn eos(&self) -> TokenId {
        self.spec.vocab.eos
    }

    pub fn is_eos(&self, t: TokenId) -> bool {
        t == self.spec.vocab.eos || self.spec.vocab.eos_extra.contains(&t)
    }

    /// all EOS tokens, primary first
    pub fn eos_all(&self) -> Vec<TokenId> {
        let mut v = vec![self.spec.vocab.eos];
        v.extend_from_slice(&self.spec.vocab.eos_extra);
        v
    }

    pub fn new_parser_with(&self, factory: &ParserFactory) -> Result<TokenParser> {
        let mut tp = factory.create_parser(self.grammar.clone())?;
        if let Some(p) = &self.spec.prompt {
            if self.spec.canonical {
                let toks = self.tok_env.tokenize_bytes(&unhex(p));
                let r = std::panic::catch_unwind(std::panic::AssertUnwindSafe(|| {
                    tp.process_prompt(toks);
                }));
                if r.is_err() {
                    anyhow::bail!("panic: process_prompt");
                }
            }
        }
        Ok(tp)
    }

    /// A freshly built engine (nothing shared with any handle under test).
    pub fn fresh_parser(&self) -> Result<TokenParser> {
        if self.spec.fresh_rebuild {
            return self.new_parser_with(&self.factory);
        }
        let mut g = self.proto.lock().unwrap();
        if !g.contains_key("main") {
            g.insert("main".into(), self.new_parser_with(&self.factory)?);
        }
        Ok(g.get("main").unwrap().deep_clone())
    }

    pub fn fresh_matcher(&self) -> Matcher {
        Matcher::new(self.fresh_parser())
    }
}

// ------------------------------------------------------------------ byte-level sampling (used to derive synthetic vocabularies)

/// does the grammar build (byte vocabulary, default limits)? Used by generators of random grammars
/// that are meant to be valid: one that does not build is not used.
pub fn grammar_constructs(kind: GKind, text: &str) -> bool {
    let v = byte_vocab();
    let env = make_tok_env(&v, false);
    let fac = match make_factory(&env, &Some(vec![]), &LimitsSpec::default(), false) {
        Ok(f) => f,
        Err(_) => return false,
    };
    let g = match top_level_grammar(kind, &instantiate_grammar_text(text, &v)) {
        Ok(g) => g,
        Err(_) => return false,
    };
    let mut m = Matcher::new(fac.create_parser(g));
    !m.is_error() && m.compute_mask().is_ok()
}

pub fn sample_texts(kind: GKind, text: &str, rng: &mut Rng, n: usize, max_len: usize) -> Vec<Vec<u8>> {
    let v = byte_vocab();
    let env = make_tok_env(&v, false);
    let lim = LimitsSpec::default();
    let fac = match make_factory(&env, &Some(vec![]), &lim, false) {
        Ok(f) => f,
        Err(_) => return vec![],
    };
    let gtext = instantiate_grammar_text(text, &v);
    let g = match top_level_grammar(kind, &gtext) {
        Ok(g) => g,
        Err(_) => return vec![],
    };
    let mut out = vec![];
    for _ in 0..n {
        let mut m = Matcher::new(fac.create_parser(g.clone()));
        let mut bytes = vec![];
        for _ in 0..max_len {
            if m.is_stopped() {
                break;
            }
            let mask = match m.compute_mask() {
                Ok(m) => m,
                Err(_) => break,
            };
            let mut allowed: Vec<u32> = vec![];
            mask.iter_set_entries(|i| {
                if i < 256 {
                    allowed.push(i as u32)
                }
            });
            if allowed.is_empty() {
                break;
            }
            // prefer printable ASCII to keep samples readable, but keep others reachable
            let printable: Vec<u32> = allowed
                .iter()
                .copied()
                .filter(|b| (0x20..0x7f).contains(b))
                .collect();
            let t = if !printable.is_empty() && rng.chance(0.85) {
                *rng.pick(&printable)
            } else {
                *rng.pick(&allowed)
            };
            if m.consume_token(t).is_err() {
                break;
            }
            bytes.push(t as u8);
        }
        if !bytes.is_empty() {
            out.push(bytes);
        }
    }
    out
}

pub fn check_corpus() -> Result<()> {
    let v = byte_vocab();
    let env = make_tok_env(&v, false);
    let fac = make_factory(&env, &None, &LimitsSpec::default(), false)?;
    let mut bad = 0;
    for e in corpus::CORPUS {
        let text = instantiate_grammar_text(e.text, &v);
        let g = top_level_grammar(e.kind, &text).map_err(|x| anyhow!("{}: {}", e.id, x))?;
        match fac.create_parser(g) {
            Ok(p) => {
                let mut m = Matcher::new(Ok(p));
                let r = m.compute_mask();
                let mut rng = Rng::new(1);
                let s = sample_texts(e.kind, e.text, &mut rng, 2, 60);
                println!(
                    "ok   {:28} mask={:?} sample={:?}",
                    e.id,
                    r.map(|m| m.num_set()).map_err(|e| e.to_string()),
                    s.iter()
                        .map(|b| String::from_utf8_lossy(b).to_string())
                        .collect::<Vec<_>>()
                );
            }
            Err(err) => {
                bad += 1;
                println!("FAIL {:28} {}", e.id, err);
            }
        }
    }
    if bad > 0 {
        bail!("{} corpus grammars failed to compile", bad);
    }
    Ok(())
}

/// ad-hoc probes used while triaging (kept: they document the failing call sequences)
pub fn probe(name: &str) -> Result<()> {
    match name {
        "ffbytes_special" => {
            // non-canonical tokenizer, grammar whose next element is a special token
            let v = byte_vocab();
            let env = make_tok_env(&v, false);
            let fac = make_factory(&env, &Some(vec![]), &LimitsSpec::default(), false)?;
            let g = top_level_grammar(GKind::Lark, "start: <|tool|> \"x\"")?;
            let mut m = Matcher::new(fac.create_parser(g.clone()));
            println!("mask#1 = {:?}", m.compute_mask().map(|m| m.to_list()).map_err(|e| e.to_string()));
            println!("ff_bytes = {:?}", m.compute_ff_bytes());
            println!("mask#2 = {:?}", m.compute_mask().map(|m| m.to_list()).map_err(|e| e.to_string()));
            let mut m = Matcher::new(fac.create_parser(g));
            println!("-- fresh engine, validate/commit after ff_bytes");
            println!("ff_bytes = {:?}", m.compute_ff_bytes());
            println!("validate([256]) = {:?}", m.validate_tokens(&[256]).map_err(|e| e.to_string()));
            println!("consume(256) = {:?}", m.consume_token(256).map_err(|e| e.to_string()));
            println!("mask = {:?}", m.compute_mask().map(|m| m.to_list()).map_err(|e| e.to_string()));
        }
        "rollback_captures" => {
            let v = byte_vocab();
            let env = make_tok_env(&v, false);
            let fac = make_factory(&env, &Some(vec![]), &LimitsSpec::default(), false)?;
            let g = top_level_grammar(GKind::Lark, "start: one \"-\" (two | three)\none[capture]: /[a-z]+/\ntwo[capture]: /[0-9]+/ \";\"\nthree[capture]: /[A-Z]+/ \";\"")?;
            let mut m = Matcher::new(fac.create_parser(g.clone()));
            for b in b"ab-12;" {
                m.consume_token(*b as u32)?;
            }
            println!("after 'ab-12;': captures = {:?}", m.captures().iter().map(|(k, v)| (k.clone(), String::from_utf8_lossy(v).to_string())).collect::<Vec<_>>());
            m.rollback(3)?;
            println!("after rollback(3) [text 'ab-']: captures = {:?}", m.captures().iter().map(|(k, v)| (k.clone(), String::from_utf8_lossy(v).to_string())).collect::<Vec<_>>());
            for b in b"XY;" {
                m.consume_token(*b as u32)?;
            }
            println!("after 'XY;' [text 'ab-XY;']: captures = {:?} get(two)={:?}", m.captures().iter().map(|(k, v)| (k.clone(), String::from_utf8_lossy(v).to_string())).collect::<Vec<_>>(), m.get_capture("two").map(|v| String::from_utf8_lossy(v).to_string()));
            let mut f = Matcher::new(fac.create_parser(g));
            for b in b"ab-XY;" {
                f.consume_token(*b as u32)?;
            }
            println!("fresh engine on 'ab-XY;': captures = {:?} get(two)={:?}", f.captures().iter().map(|(k, v)| (k.clone(), String::from_utf8_lossy(v).to_string())).collect::<Vec<_>>(), f.get_capture("two").map(|v| String::from_utf8_lossy(v).to_string()));
        }
        "force_bytes_loop" => {
            // greedy lexer: the first A swallows every "ab", the second A can never start,
            // so 'a','b','a','b',... are forced for ever
            let v = byte_vocab();
            let env = make_tok_env(&v, name.len() % 2 == 1);
            let fac = make_factory(&env, &Some(vec![]), &LimitsSpec::default(), false)?;
            let g = top_level_grammar(GKind::Lark, "start: A A\nA: /(ab)+/")?;
            let mut m = Matcher::new(fac.create_parser(g));
            println!("calling compute_ff_bytes ...");
            let b = m.compute_ff_bytes();
            println!("ff_bytes len = {}", b.len());
        }
        "stop_invalid_utf8" => {
            let v = byte_vocab();
            let env = make_tok_env(&v, false);
            let mut sc = llguidance::StopController::new(env, vec![], None, vec!["stop".to_string()])?;
            println!("commit 'a' -> {:?}", sc.commit_token(b'a' as u32));
            println!("commit 0x80 (lone continuation byte) ...");
            let r = std::panic::catch_unwind(std::panic::AssertUnwindSafe(|| sc.commit_token(0x80)));
            println!("-> {:?}", r.map_err(|_| "PANIC"));
        }
        "deep_clone_poisoned" => {
            let v = byte_vocab();
            let env = make_tok_env(&v, false);
            let fac = make_factory(&env, &Some(vec![]), &LimitsSpec::default(), false)?;
            let g = top_level_grammar(GKind::Lark, "start: /[a-z]+/")?;
            let mut a = Matcher::new(fac.create_parser(g));
            let b = a.clone();
            println!("trigger in a: {:?}", a.test_trigger_lexer_error().map_err(|e| short1(&e.to_string())));
            let r = std::panic::catch_unwind(std::panic::AssertUnwindSafe(|| b.deep_clone().is_error()));
            println!("b.deep_clone() -> {:?}", r.map_err(|_| "PANIC"));
        }
        "fuel_mask" => {
            // fuel runs out in the middle of the first mask computation
            let v = byte_vocab();
            let env = make_tok_env(&v, true);
            let fac = make_factory(&env, &Some(vec![]), &LimitsSpec::default(), false)?;
            let g = top_level_grammar(GKind::Lark, "start: item{2,5} \".\"\nitem: \"ab\" | \"a\" | \"abc\"\n")?;
            for k in 0..12u32 {
                let mut m = Matcher::new(fac.create_parser(g.clone()));
                crate::sched::FUEL_FAULT.with(|x| x.set(Some(k)));
                let r1 = m.compute_mask().map(|m| m.to_list()).map_err(|e| short1(&e.to_string()));
                crate::sched::FUEL_FAULT.with(|x| x.set(None));
                let r2 = m.compute_mask().map(|m| m.to_list()).map_err(|e| short1(&e.to_string()));
                let r3 = m.consume_token(b'a' as u32).map_err(|e| short1(&e.to_string()));
                let r4 = m.compute_mask().map(|m| m.to_list()).map_err(|e| short1(&e.to_string()));
                println!("fuel fault at transition {k}: mask1={:?} mask2={:?} commit(a)={:?} mask3={:?}", r1, r2, r3, r4);
            }
        }
        "lazy_empty" => {
            // documented in docs/syntax.md: `foo[lazy]: /.*/` will match only the empty string
            for (canon, gtext) in [
                (true, "start: foo \"x\"\nfoo[lazy]: /.*/"),
                (false, "start: foo \"x\"\nfoo[lazy]: /.*/"),
                (true, "start: \"q\" foo \"x\"\nfoo[lazy]: /a*/"),
            ] {
                let v = byte_vocab();
                let env = make_tok_env(&v, canon);
                let fac = make_factory(&env, &Some(vec![]), &LimitsSpec::default(), false)?;
                let g = top_level_grammar(GKind::Lark, gtext)?;
                let mut m = Matcher::new(fac.create_parser(g));
                println!("canonical={canon} grammar={gtext:?}: construction error = {:?}", m.get_error().map(|e| short1(&e)));
                let _ = m.consume_token(b'q' as u32);
                let m2 = m.deep_clone();
                println!("   compute_mask     -> {:?}", m.compute_mask().map(|x| x.to_list()).map_err(|e| short1(&e.to_string())));
                let mut m = m2;
                println!("   compute_ff_bytes -> {:?}; is_error={}", m.compute_ff_bytes(), m.is_error());
            }
        }
        "max_items_huge" => {
            let v = byte_vocab();
            let env = make_tok_env(&v, false);
            let fac = make_factory(&env, &Some(vec![]), &LimitsSpec::default(), false)?;
            for n in [1000u64, 100_000, 10_000_000, 4294967295] {
                let g = top_level_grammar(GKind::Json, &format!("{{\"type\":\"array\",\"items\":{{\"type\":\"boolean\"}},\"maxItems\":{n}}}"))?;
                let t0 = std::time::Instant::now();
                let r = fac.create_parser(g);
                println!("maxItems={n}: {:?} in {:?}", r.map(|_| "ok").map_err(|e| short1(&e.to_string())), t0.elapsed());
            }
        }
        _ => bail!("unknown probe"),
    }
    Ok(())
}

fn short1(s: &str) -> String {
    s.lines().next().unwrap_or("").to_string()
}
