//! Oracles. Each check compares the engine with itself under a different history,
//! configuration, fragmentation or schedule, or with a trivial model. None re-implements
//! regex / Earley / JSON-schema semantics.

use llguidance::toktrie::TokenId;

use crate::exec::*;
use crate::handle::*;
use crate::rng::Rng;
use crate::scenario::*;

#[derive(Clone, Debug, PartialEq)]
pub struct Obs {
    pub error: bool,
    pub stopped: bool,
    pub reason: String,
    pub mask: Option<Vec<u32>>,
    pub mask_err: Option<ErrClass>,
    pub accepting: Option<bool>,
    pub ff_bytes: Option<Vec<u8>>,
    pub ff_tokens: Vec<TokenId>,
    /// captures as reported after all the queries above (forced bytes have been taken on both sides)
    pub captures: Option<Vec<(String, Vec<u8>)>>,
}

pub fn observe(m: &mut MH, nv: usize) -> Obs {
    if m.is_error() {
        return Obs {
            error: true,
            stopped: true,
            reason: "error".into(),
            mask: None,
            mask_err: None,
            accepting: None,
            ff_bytes: None,
            ff_tokens: vec![],
            captures: None,
        };
    }
    let stopped = m.is_stopped();
    let reason = m
        .stop_reason()
        .map(|r| r.to_string())
        .unwrap_or_else(|| if stopped { "stopped".into() } else { "NotStopped".into() });
    let accepting = m.is_accepting().ok();
    let (mask, mask_err) = match if stopped {
        m.compute_mask_or_eos(nv)
    } else {
        m.compute_mask(nv)
    } {
        Ok(w) => (Some(w), None),
        Err(e) => (None, Some(classify_err(&e.to_string()))),
    };
    let ff_tokens = if mask.is_some() {
        m.compute_ff_tokens()
    } else {
        vec![]
    };
    let ff_bytes = if mask.is_some() {
        m.compute_ff_bytes()
    } else {
        None
    };
    Obs {
        error: m.is_error(),
        stopped,
        reason,
        mask,
        mask_err,
        accepting,
        ff_bytes,
        ff_tokens,
        captures: if m.is_error() { None } else { m.captures() },
    }
}

pub fn mask_diff(a: &[u32], b: &[u32]) -> Option<(u32, bool)> {
    for i in 0..a.len().max(b.len()) {
        let x = a.get(i).copied().unwrap_or(0);
        let y = b.get(i).copied().unwrap_or(0);
        if x != y {
            let d = x ^ y;
            let bitn = d.trailing_zeros();
            let t = i as u32 * 32 + bitn;
            return Some((t, (x >> bitn) & 1 == 1));
        }
    }
    None
}

/// first difference between two observations, as (field, description)
pub fn obs_diff(a: &Obs, b: &Obs, la: &str, lb: &str, mask_only: bool) -> Option<(String, String)> {
    obs_diff_cap(a, b, la, lb, mask_only, 50_000)
}

pub fn obs_diff_cap(a: &Obs, b: &Obs, la: &str, lb: &str, mask_only: bool, cap: usize) -> Option<(String, String)> {
    if a.error != b.error {
        return Some((
            "error".into(),
            format!("{la}.error={} {lb}.error={}", a.error, b.error),
        ));
    }
    // force_bytes() forces at most step_max_items bytes per call (forcing fewer bytes is always
    // allowed). For grammars that force (nearly) unbounded text, how much is forced - and hence
    // whether the mask is narrowed to the next forced token - depends on where earlier calls
    // stopped. Only prefix-compatibility of the forced text is required then.
    let capped = |x: &Option<Vec<u8>>| x.as_ref().map(|v| v.len() >= cap).unwrap_or(false);
    let long_forced = capped(&a.ff_bytes)
        || capped(&b.ff_bytes)
        || a.ff_tokens.len() >= cap / 8
        || b.ff_tokens.len() >= cap / 8;
    if long_forced {
        if let (Some(x), Some(y)) = (&a.ff_bytes, &b.ff_bytes) {
            if !(x.starts_with(y) || y.starts_with(x)) {
                return Some((
                    "ff_bytes".into(),
                    format!("{la} and {lb} forced bytes are not prefix-compatible"),
                ));
            }
        }
        return None;
    }
    match (&a.mask, &b.mask) {
        (Some(x), Some(y)) => {
            if let Some((t, in_a)) = mask_diff(x, y) {
                return Some((
                    "mask".into(),
                    format!(
                        "token {t} is {} by {la} but {} by {lb}",
                        if in_a { "allowed" } else { "disallowed" },
                        if in_a { "disallowed" } else { "allowed" }
                    ),
                ));
            }
        }
        (None, None) => {}
        (x, _) => {
            return Some((
                "mask_result".into(),
                format!(
                    "{la} mask {} ({:?}) but {lb} mask {} ({:?})",
                    if x.is_some() { "ok" } else { "failed" },
                    a.mask_err,
                    if x.is_some() { "failed" } else { "ok" },
                    b.mask_err
                ),
            ))
        }
    }
    if mask_only {
        return None;
    }
    if a.stopped != b.stopped || a.reason != b.reason {
        return Some((
            "stop".into(),
            format!(
                "{la}: stopped={} reason={}; {lb}: stopped={} reason={}",
                a.stopped, a.reason, b.stopped, b.reason
            ),
        ));
    }
    if a.accepting != b.accepting {
        return Some((
            "accepting".into(),
            format!("{la}.accepting={:?} {lb}.accepting={:?}", a.accepting, b.accepting),
        ));
    }
    if a.ff_tokens != b.ff_tokens {
        return Some((
            "ff_tokens".into(),
            format!("{la}.ff_tokens={:?} {lb}.ff_tokens={:?}", a.ff_tokens, b.ff_tokens),
        ));
    }
    if let (Some(x), Some(y)) = (&a.captures, &b.captures) {
        if x != y {
            let show = |v: &Vec<(String, Vec<u8>)>| {
                v.iter()
                    .map(|(k, b)| format!("{k}={:?}", String::from_utf8_lossy(b)))
                    .collect::<Vec<_>>()
                    .join(",")
            };
            return Some(("captures".into(), format!("{la}.captures=[{}] {lb}.captures=[{}]", show(x), show(y))));
        }
    }
    if let (Some(x), Some(y)) = (&a.ff_bytes, &b.ff_bytes) {
        if x != y {
            return Some((
                "ff_bytes".into(),
                format!(
                    "{la}.ff_bytes={:?} {lb}.ff_bytes={:?}",
                    String::from_utf8_lossy(x),
                    String::from_utf8_lossy(y)
                ),
            ));
        }
    }
    None
}

impl<'a> Exec<'a> {
    fn skip(&mut self, why: &str) -> VResult<()> {
        self.stats.checks_skipped += 1;
        self.ev(format!("chk skipped {why}"));
        Ok(())
    }

    /// live matcher slot or None (with the check counted as skipped)
    fn live_matcher(&mut self, h: SlotId) -> Option<()> {
        match self.slots.get_mut(&h) {
            Some(s) if s.failed.is_none() => match &mut s.h {
                H::M(m) => {
                    if m.is_error() {
                        None
                    } else {
                        Some(())
                    }
                }
                _ => None,
            },
            _ => None,
        }
    }

    /// Fault-injecting runs only: has a lexer/parser limit error been latched in this handle
    /// (sticky error flag set by an earlier operation) without having been reported yet?
    /// Results obtained in that window are "in flight" and not judged.
    fn limit_error_latched(&mut self, h: SlotId) -> bool {
        if self.fault_free() {
            return false;
        }
        let g = self.slots[&h].lexer_group;
        if self.ctx.group_lexer_err(g) || self.ctx.group_poisoned(g) {
            return true;
        }
        let nv = self.ctx.n_vocab();
        let mut cl = self.mh(h).clone_handle(false);
        if cl.is_error() {
            return true;
        }
        // commit checks the sticky error flags before doing anything else
        let t = match cl.compute_mask_or_eos(nv) {
            Ok(m) => set_bits(&m).first().copied(),
            Err(e) => return classify_err(&e.to_string()) == ErrClass::Limit,
        };
        match t {
            Some(t) => match cl.consume_tokens(&[t]) {
                Err(e) => {
                    let c = classify_err(&e.to_string());
                    if c == ErrClass::Limit {
                        self.stats.probe("limit_error_latched_unreported");
                        true
                    } else {
                        false
                    }
                }
                Ok(()) => false,
            },
            None => false,
        }
    }

    pub fn mh(&mut self, h: SlotId) -> &mut MH {
        match &mut self.slots.get_mut(&h).unwrap().h {
            H::M(m) => m,
            _ => panic!("not a matcher slot"),
        }
    }

    // ------------------------------------------------------------- C01

    pub fn chk_accept(&mut self, h: SlotId, sample: usize, seed: u64) -> VResult<()> {
        if self.live_matcher(h).is_none() {
            return self.skip("dead");
        }
        let nv = self.ctx.n_vocab();
        let eos = self.ctx.world.eos();
        let canonical = self.ctx.world.spec.canonical;
        if self.mh(h).is_stopped() {
            return self.skip("stopped");
        }
        self.stats.checks += 1;
        let mask = match self.mh(h).compute_mask(nv) {
            Ok(m) => m,
            Err(e) => return self.on_matcher_err(h, "mask", &e.to_string(), true),
        };
        self.stats.masks += 1;
        self.check_mask_range(h, &mask)?;
        let acc = match self.mh(h).is_accepting() {
            Ok(a) => a,
            Err(e) => return self.on_matcher_err(h, "is_accepting", &e.to_string(), true),
        };
        for e in self.ctx.world.eos_all() {
            if bit(&mask, e) != acc {
                return Err(self.viol(
                    "eos_iff_accepting",
                    "eos_iff_accepting",
                    format!("h{h}: EOS token {e} in mask = {} but is_accepting = {acc}", bit(&mask, e)),
                ));
            }
        }
        let ff = if canonical {
            self.mh(h).compute_ff_tokens()
        } else {
            vec![]
        };
        let narrow = canonical && !ff.is_empty();
        if narrow {
            self.stats.probe("canonical_narrowing");
            let bits = set_bits(&mask);
            if bits != vec![ff[0]] {
                return Err(self.viol(
                    "mask_eq_accept",
                    "narrowed_mask_not_singleton",
                    format!("h{h}: ff_tokens={:?} but mask bits {:?}", ff, &bits[..bits.len().min(8)]),
                ));
            }
        }
        // which token ids to test
        let ids: Vec<u32> = if sample == 0 || sample >= nv {
            (0..nv as u32).collect()
        } else {
            let mut rng = Rng::new(seed);
            let mut v: Vec<u32> = set_bits(&mask);
            // all allowed tokens (boundary), plus a sample of the rest
            let allowed_cap = sample.max(64);
            if v.len() > allowed_cap {
                rng.shuffle(&mut v);
                v.truncate(allowed_cap);
            }
            for _ in 0..sample {
                v.push(rng.below(nv) as u32);
            }
            v.extend(self.ctx.world.eos_all());
            v.sort();
            v.dedup();
            v
        };
        let lexer_err_before = self.ctx.group_lexer_err(self.slots[&h].lexer_group);
        for (i, &t) in ids.iter().enumerate() {
            let m = bit(&mask, t);
            let v = match self.mh(h).validate_tokens(&[t]) {
                Ok(n) => n == 1,
                Err(e) => return self.on_matcher_err(h, "validate", &e.to_string(), true),
            };
            let mut cl = self.mh(h).clone_handle(i % 7 == 3);
            let c = match cl.consume_tokens(&[t]) {
                Ok(()) => true,
                Err(e) => {
                    let cls = classify_err(&e.to_string());
                    match cls {
                        ErrClass::Misuse => false,
                        ErrClass::Limit if !self.fault_free() => continue,
                        ErrClass::Poison if !self.fault_free() => continue,
                        ErrClass::Limit => {
                            self.stats.probe("limit_hit_with_default_limits");
                            continue;
                        }
                        _ => {
                            return Err(self.viol(
                                "no_internal_panic",
                                "panic:commit_on_clone",
                                format!("h{h}: committing token {t} on a clone: {}", short(&e.to_string())),
                            ))
                        }
                    }
                }
            };
            drop(cl);
            self.stats.tokens_checked += 1;
            let ok = if narrow {
                !m || (v && c)
            } else {
                m == v && v == c
            };
            if !ok {
                // in fault-injecting runs a lexer error entered during this check makes
                // validate/commit results "in flight"
                if !self.fault_free() && (lexer_err_before || self.limit_error_latched(h)) {
                    return self.skip("lexer_error_in_flight");
                }
                let sig = match (m, v, c) {
                    (true, false, _) => "mask_allows_validate_rejects",
                    (true, true, false) => "mask_allows_commit_rejects",
                    (false, true, true) => "mask_misses_accepted_token",
                    (false, true, false) => "validate_accepts_commit_rejects",
                    (false, false, true) => "commit_accepts_validate_rejects",
                    _ => "mask_validate_commit_disagree",
                };
                return Err(self.viol(
                    "mask_eq_accept",
                    sig,
                    format!(
                        "h{h}: token {t} {:?}: mask={m} validate={v} commit={c} (narrow={narrow}) after {} tokens",
                        String::from_utf8_lossy(self.ctx.tok_bytes(t)),
                        self.slots[&h].hist.len()
                    ),
                ));
            }
        }
        self.ev(format!("chk_accept h{h} n={} {:016x}", ids.len(), hash_words(&mask)));
        Ok(())
    }

    pub fn chk_seq(&mut self, h: SlotId, picks: &[Pick]) -> VResult<()> {
        if self.live_matcher(h).is_none() {
            return self.skip("dead");
        }
        if self.mh(h).is_stopped() {
            return self.skip("stopped");
        }
        let nv = self.ctx.n_vocab();
        let eos = self.ctx.world.eos();
        // resolve the sequence on a scratch clone; dishonest picks stay in (that is the point)
        let mut toks: Vec<TokenId> = vec![];
        {
            let mut scratch = self.mh(h).clone_handle(true);
            for p in picks {
                let mask = if scratch.is_stopped() || scratch.is_error() {
                    None
                } else {
                    scratch.compute_mask(nv).ok()
                };
                let t = match self.resolve_pick(mask.as_ref(), p) {
                    Some(t) if (t as usize) < nv => t,
                    _ => break,
                };
                toks.push(t);
                if self.ctx.world.is_eos(t) {
                    break; // EOS only as last element (scope note in DESIGN.md)
                }
                if scratch.consume_tokens(&[t]).is_err() {
                    break;
                }
            }
        }
        if toks.is_empty() {
            return self.skip("empty_seq");
        }
        self.stats.checks += 1;
        let n = match self.mh(h).validate_tokens(&toks) {
            Ok(n) => n,
            Err(e) => return self.on_matcher_err(h, "validate", &e.to_string(), true),
        };
        // longest prefix that can be committed
        let mut k = 0;
        for len in 1..=toks.len() {
            let mut cl = self.mh(h).clone_handle(len % 2 == 0);
            match cl.consume_tokens(&toks[..len]) {
                Ok(()) => k = len,
                Err(e) => {
                    match classify_err(&e.to_string()) {
                        ErrClass::Misuse => {}
                        _ if !self.fault_free() => return self.skip("fault_in_flight"),
                        ErrClass::Limit => return self.skip("limit"),
                        _ => {
                            return Err(self.viol(
                                "no_internal_panic",
                                "panic:commit_on_clone",
                                format!("h{h}: committing {:?} on a clone: {}", &toks[..len], short(&e.to_string())),
                            ))
                        }
                    }
                    break;
                }
            }
        }
        if n != k {
            if self.limit_error_latched(h) {
                return self.skip("lexer_error_in_flight");
            }
            return Err(self.viol(
                "validate_eq_commit_prefix",
                "validate_seq_ne_commit_prefix",
                format!("h{h}: validate_tokens({:?}) = {n} but {k} tokens can be committed", toks),
            ));
        }
        self.ev(format!("chk_seq h{h} {:?} -> {n}", toks));
        Ok(())
    }

    // ------------------------------------------------------------- C11 / C12 / C14

    pub fn chk_fresh(&mut self, h: SlotId) -> VResult<()> {
        let nv = self.ctx.n_vocab();
        let (hist, alt, group, failed) = match self.slots.get(&h) {
            Some(s) if matches!(s.h, H::M(_)) => {
                (s.hist.clone(), s.alt, s.lexer_group, s.failed.is_some())
            }
            _ => return self.skip("no_slot"),
        };
        if failed {
            // sticky failure: a failed engine keeps reporting its failure
            let o = observe(self.mh(h), nv);
            if !o.error || !self.mh(h).is_stopped() {
                return Err(self.viol(
                    "sticky_failure",
                    "failed_handle_recovered",
                    format!("h{h} had failed but now reports error={} stopped={}", o.error, o.stopped),
                ));
            }
            return self.skip("failed");
        }
        self.stats.checks += 1;
        let mut r = MH::R(self.fresh_matcher(alt));
        if !hist.is_empty() {
            if let Err(e) = r.consume_tokens(&hist) {
                if self.fault_free() && classify_err(&e.to_string()) != ErrClass::Limit {
                    return Err(self.viol(
                        "fresh_equivalence",
                        "fresh_rejects_history",
                        format!("fresh engine rejects the committed history {:?} of h{h}: {}", hist, short(&e.to_string())),
                    ));
                }
                return self.skip("fresh_failed_under_limits");
            }
        }
        let oh = observe(self.mh(h), nv);
        let or = observe(&mut r, nv);
        self.stats.masks += 1;
        let lexer_err = self.ctx.group_lexer_err(group);
        let poisoned = self.ctx.group_poisoned(group);
        if !self.fault_free() {
            // narrow relaxation: the handle may fail with a documented stop; a returned mask is still exact
            if oh.error || oh.mask.is_none() {
                let e = self.mh(h).get_error().unwrap_or_else(|| format!("{:?}", oh.mask_err));
                if oh.error {
                    return self.on_matcher_err(h, "observe", &e, false);
                }
                return self.skip("handle_failed_under_faults");
            }
            if or.error || or.mask.is_none() {
                return self.skip("fresh_failed_under_limits");
            }
        }
        // fault-injecting runs: only a successfully returned mask is judged (bit for bit)
        if self.keep_log {
            self.log.push(format!("      handle obs: {:?}", oh.mask.as_ref().map(|m| { let b = set_bits(m); (b.len(), b[..b.len().min(16)].to_vec()) })));
            self.log.push(format!("      fresh  obs: {:?}", or.mask.as_ref().map(|m| { let b = set_bits(m); (b.len(), b[..b.len().min(16)].to_vec()) })));
        }
        if let Some((field, d)) = obs_diff_cap(&oh, &or, "handle", "fresh", lexer_err || poisoned || !self.fault_free(), self.ctx.sc.world.limits.step_max_items.max(64)) {
            if self.limit_error_latched(h) {
                return self.skip("limit_error_in_flight");
            }
            return Err(self.viol(
                "fresh_equivalence",
                &format!("differs_from_fresh:{field}"),
                format!("h{h} after {} tokens {:?}: {d}", hist.len(), hist),
            ));
        }
        if let Some(m1) = &oh.mask {
            if !oh.stopped {
                // idempotence, and after cache loss
                let m2 = self.mh(h).compute_mask(nv);
                self.mh(h).invalidate_bias_cache();
                let m3 = self.mh(h).compute_mask(nv);
                for (lbl, m) in [("second", m2), ("after_invalidate", m3)] {
                    match m {
                        Ok(m) => {
                            if let Some((t, in_a)) = mask_diff(m1, &m) {
                                // fault-injecting runs: a sibling may have driven the shared lexer out
                                // of fuel between the two calls; with a canonical tokenizer compute_mask
                                // then still answers (the forced-token shortcut returns before the error
                                // check) and the limit stop surfaces on the next commit - same "in flight"
                                // window as for the comparison with the fresh engine above
                                if self.limit_error_latched(h) {
                                    return self.skip("limit_error_in_flight");
                                }
                                return Err(self.viol(
                                    "mask_idempotent",
                                    &format!("mask_not_idempotent:{lbl}"),
                                    format!("h{h}: token {t} first={in_a} {lbl}={}", !in_a),
                                ));
                            }
                        }
                        Err(e) => {
                            // a documented resource-limit stop is a legitimate outcome at any time
                            if self.fault_free() && classify_err(&e.to_string()) != ErrClass::Limit {
                                return Err(self.viol(
                                    "mask_idempotent",
                                    &format!("mask_failed:{lbl}"),
                                    format!("h{h}: {lbl} mask failed: {}", short(&e.to_string())),
                                ));
                            }
                            return self.on_matcher_err(h, "mask", &e.to_string(), true);
                        }
                    }
                }
                self.slots.get_mut(&h).unwrap().last_mask = Some(m1.clone());
            }
            self.ev(format!("chk_fresh h{h} {:016x} acc={:?}", hash_words(m1), oh.accepting));
        } else {
            self.ev(format!("chk_fresh h{h} nomask"));
        }
        Ok(())
    }

    pub fn chk_continue(&mut self, h: SlotId, snap: Option<SlotId>, picks: &[Pick]) -> VResult<()> {
        if self.live_matcher(h).is_none() {
            return self.skip("dead");
        }
        let nv = self.ctx.n_vocab();
        let (hist, alt) = {
            let s = &self.slots[&h];
            (s.hist.clone(), s.alt)
        };
        let mut engines: Vec<(String, MH)> = vec![];
        engines.push(("handle_clone".into(), self.mh(h).clone_handle(true)));
        let mut r = MH::R(self.fresh_matcher(alt));
        if !hist.is_empty() && r.consume_tokens(&hist).is_err() {
            if self.fault_free() {
                return Err(self.viol(
                    "fresh_equivalence",
                    "fresh_rejects_history",
                    format!("fresh engine rejects history {:?} of h{h}", hist),
                ));
            }
            return self.skip("fresh_failed");
        }
        engines.push(("fresh".into(), r));
        if let Some(sn) = snap {
            if let Some(ss) = self.slots.get_mut(&sn) {
                if ss.hist == hist && ss.failed.is_none() {
                    if let H::M(m) = &mut ss.h {
                        engines.push(("snapshot".into(), m.clone_handle(true)));
                        self.stats.probe("snapshot_compared");
                    }
                }
            }
        }
        self.stats.checks += 1;
        let mut committed: Vec<TokenId> = vec![];
        for (i, p) in picks.iter().enumerate() {
            let obs: Vec<Obs> = engines.iter_mut().map(|(_, e)| observe(e, nv)).collect();
            if !self.fault_free() && obs.iter().any(|o| o.error || o.mask.is_none()) {
                return self.skip("fault_in_flight");
            }
            for j in 1..obs.len() {
                if let Some((field, d)) =
                    obs_diff_cap(&obs[0], &obs[j], &engines[0].0.clone(), &engines[j].0.clone(), false, self.ctx.sc.world.limits.step_max_items.max(64))
                {
                    return Err(self.viol(
                        "continued_equivalence",
                        &format!("continuation_differs:{}:{field}", engines[j].0),
                        format!("h{h} history {:?} + {:?}, step {i}: {d}", hist, committed),
                    ));
                }
            }
            if obs[0].stopped || obs[0].error {
                break;
            }
            let t = match self.resolve_pick(obs[0].mask.as_ref(), p) {
                Some(t) => t,
                None => break,
            };
            let res: Vec<bool> = engines
                .iter_mut()
                .map(|(_, e)| e.consume_tokens(&[t]).is_ok())
                .collect();
            if res.iter().any(|r| *r != res[0]) {
                if !self.fault_free() {
                    return self.skip("fault_in_flight");
                }
                return Err(self.viol(
                    "continued_equivalence",
                    "continuation_commit_differs",
                    format!("h{h} history {:?} + {:?}: committing {t}: {:?}", hist, committed, res),
                ));
            }
            if !res[0] {
                break;
            }
            committed.push(t);
        }
        self.ev(format!("chk_continue h{h} +{:?}", committed));
        Ok(())
    }

    // ------------------------------------------------------------- C02 / C18 (byte replica)

    fn byte_tokens(b: &[u8]) -> Vec<TokenId> {
        b.iter().map(|x| *x as TokenId).collect()
    }

    pub fn chk_byte(&mut self, h: SlotId) -> VResult<()> {
        if self.live_matcher(h).is_none() {
            return self.skip("dead");
        }
        if self.ctx.tokref {
            return self.skip("tokref_grammar");
        }
        let nv = self.ctx.n_vocab();
        let eos = self.ctx.world.eos();
        let hist = self.slots[&h].hist.clone();
        let _ = eos;
        let (hist_noeos, had_eos) = match hist.last() {
            Some(t) if self.ctx.world.is_eos(*t) => (&hist[..hist.len() - 1], true),
            _ => (&hist[..], false),
        };
        let bytes = match self.hist_bytes(hist_noeos) {
            Some(b) => b,
            None => return self.skip("special_in_history"),
        };
        self.stats.checks += 1;
        // B accepts every byte (fed one at a time through the single-byte vocabulary)
        let mut b = self.byte_matcher();
        let btoks = Self::byte_tokens(&bytes);
        // feed all but the last byte in one go, keep B' (before the last byte) for the stop oracle
        let mut b_prev = None;
        if !btoks.is_empty() {
            let (init, last) = btoks.split_at(btoks.len() - 1);
            if !init.is_empty() {
                if let Err(e) = b.consume_tokens(init) {
                    // the replica checks the row limit after every byte, the handle after every token
                    if classify_err(&e.to_string()) == ErrClass::Limit {
                        return self.skip("byte_replica_hit_limit");
                    }
                    return Err(self.viol(
                        "split_invariance",
                        "byte_replica_rejects_history",
                        format!("h{h} accepted tokens {:?} but the byte replica rejects their bytes {:?}: {}", hist, String::from_utf8_lossy(&bytes), short(&e.to_string())),
                    ));
                }
            }
            if b.is_stopped() {
                return Err(self.viol(
                    "split_invariance",
                    "byte_replica_stopped_early",
                    format!("h{h} accepted tokens {:?} but the byte replica stops before the last byte of {:?}", hist, String::from_utf8_lossy(&bytes)),
                ));
            }
            b_prev = Some((b.clone(), last[0]));
            if let Err(e) = b.consume_tokens(last) {
                if classify_err(&e.to_string()) == ErrClass::Limit {
                    return self.skip("byte_replica_hit_limit");
                }
                return Err(self.viol(
                    "split_invariance",
                    "byte_replica_rejects_history",
                    format!("h{h} accepted tokens {:?} but the byte replica rejects the last byte of {:?}: {}", hist, String::from_utf8_lossy(&bytes), short(&e.to_string())),
                ));
            }
        }
        let a_stopped = self.mh(h).is_stopped();
        // ---- C18 stop oracle, via the validate path of B' (independent of check_stop)
        if !had_eos {
            let (accepting_b, extendable_b) = match &mut b_prev {
                Some((bp, last)) => {
                    let acc = bp.validate_tokens(&[*last, crate::ops2::BYTE_EOS]).unwrap_or(0) == 2;
                    let mut ext = false;
                    for x in 0..256u32 {
                        if bp.validate_tokens(&[*last, x]).unwrap_or(0) == 2 {
                            ext = true;
                            break;
                        }
                    }
                    (acc, ext)
                }
                None => {
                    let mut bp = self.byte_matcher();
                    let acc = bp.validate_tokens(&[crate::ops2::BYTE_EOS]).unwrap_or(0) == 1;
                    let mut ext = false;
                    for x in 0..256u32 {
                        if bp.validate_tokens(&[x]).unwrap_or(0) == 1 {
                            ext = true;
                            break;
                        }
                    }
                    (acc, ext)
                }
            };
            let should_stop = accepting_b && !extendable_b;
            if a_stopped != should_stop {
                return Err(self.viol(
                    "stop_iff_complete",
                    if a_stopped { "stopped_but_extendable_or_incomplete" } else { "complete_but_not_stopped" },
                    format!(
                        "h{h} text {:?}: is_stopped={a_stopped} but byte replica says accepting={accepting_b} extendable={extendable_b}",
                        String::from_utf8_lossy(&bytes)
                    ),
                ));
            }
            if a_stopped {
                self.stats.probe("natural_stop_checked");
            }
        } else if !a_stopped {
            return Err(self.viol(
                "stop_iff_complete",
                "eos_committed_not_stopped",
                format!("h{h}: EOS was committed in an accepting state but is_stopped is false"),
            ));
        }
        if a_stopped {
            self.ev(format!("chk_byte h{h} stopped"));
            return Ok(());
        }
        // ---- acceptance
        let acc_a = self.mh(h).is_accepting().unwrap_or(false);
        let acc_b = b.is_accepting().unwrap_or(false);
        if acc_a != acc_b {
            return Err(self.viol(
                "split_invariance",
                "accepting_differs_from_bytes",
                format!("h{h} text {:?}: is_accepting={acc_a}, byte replica {acc_b}", String::from_utf8_lossy(&bytes)),
            ));
        }
        // ---- every token of A's vocabulary: allowed <=> its bytes are allowed one at a time
        let mask = match self.mh(h).compute_mask(nv) {
            Ok(m) => m,
            Err(e) => return self.on_matcher_err(h, "mask", &e.to_string(), true),
        };
        self.stats.masks += 1;
        if self.ctx.world.spec.canonical && !self.mh(h).compute_ff_tokens().is_empty() {
            return self.skip("canonical_narrowing");
        }
        for t in 0..nv as u32 {
            if self.ctx.is_special(t) {
                continue;
            }
            let tb = self.ctx.tok_bytes(t).to_vec();
            if tb.contains(&0xff) {
                continue;
            }
            let bt = Self::byte_tokens(&tb);
            let ok_b = b.validate_tokens(&bt).unwrap_or(0) == bt.len();
            self.stats.tokens_checked += 1;
            if bit(&mask, t) != ok_b {
                return Err(self.viol(
                    "split_invariance",
                    if ok_b { "token_rejected_bytes_accepted" } else { "token_accepted_bytes_rejected" },
                    format!(
                        "h{h} after {:?}: token {t} {:?} mask={} but bytes one-at-a-time allowed={ok_b}",
                        String::from_utf8_lossy(&bytes),
                        String::from_utf8_lossy(&tb),
                        bit(&mask, t)
                    ),
                ));
            }
        }
        self.slots.get_mut(&h).unwrap().last_mask = Some(mask.clone());
        self.ev(format!("chk_byte h{h} {:016x}", hash_words(&mask)));
        Ok(())
    }

    /// C02: two token sequences with equal concatenated bytes are both accepted (or both rejected)
    /// and leave the engine with the same allowed continuations. The handle's byte history is
    /// re-cut into a random valid segmentation of the same vocabulary and fed to a fresh engine.
    pub fn chk_resplit(&mut self, h: SlotId, seed: u64) -> VResult<()> {
        if self.live_matcher(h).is_none() {
            return self.skip("dead");
        }
        if self.ctx.tokref || self.ctx.world.spec.canonical {
            return self.skip("n/a");
        }
        let nv = self.ctx.n_vocab();
        let eos = self.ctx.world.eos();
        let hist = self.slots[&h].hist.clone();
        if hist.iter().any(|t| self.ctx.world.is_eos(*t)) {
            let _ = eos;
            return self.skip("eos_in_history");
        }
        let bytes = match self.hist_bytes(&hist) {
            Some(b) => b,
            None => return self.skip("special_in_history"),
        };
        if bytes.is_empty() {
            return self.skip("empty");
        }
        let alt = self.slots[&h].alt;
        let mut rng = Rng::new(seed);
        // random segmentation: at each position any vocabulary token that is a prefix of the rest
        let mut toks: Vec<TokenId> = vec![];
        let mut pos = 0;
        while pos < bytes.len() {
            let mut cands: Vec<TokenId> = vec![];
            for t in 0..nv as u32 {
                if self.ctx.is_special(t) {
                    continue;
                }
                let w = self.ctx.tok_bytes(t);
                if !w.contains(&0xff) && bytes[pos..].starts_with(w) {
                    cands.push(t);
                }
            }
            if cands.is_empty() {
                return self.skip("byte_not_in_vocab");
            }
            let t = match rng.below(3) {
                0 => *cands.iter().max_by_key(|t| self.ctx.tok_bytes(**t).len()).unwrap(),
                1 => *cands.iter().min_by_key(|t| self.ctx.tok_bytes(**t).len()).unwrap(),
                _ => *rng.pick(&cands),
            };
            pos += self.ctx.tok_bytes(t).len();
            toks.push(t);
        }
        if toks == hist {
            return self.skip("same_split");
        }
        self.stats.checks += 1;
        self.stats.probe("resplit_compared");
        let mut r = MH::R(self.fresh_matcher(alt));
        // fed one token at a time (each must be accepted: the bytes are the same)
        for (i, t) in toks.iter().enumerate() {
            if let Err(e) = r.consume_tokens(&[*t]) {
                let cls = classify_err(&e.to_string());
                if cls == ErrClass::Limit {
                    return self.skip("limit");
                }
                return Err(self.viol(
                    "split_invariance",
                    "resplit_rejected",
                    format!(
                        "h{h} accepted {:?} (tokens {:?}) but the split {:?} of the same bytes is rejected at token #{i}: {}",
                        String::from_utf8_lossy(&bytes),
                        hist,
                        toks,
                        short(&e.to_string())
                    ),
                ));
            }
        }
        let oh = observe(self.mh(h), nv);
        let or = observe(&mut r, nv);
        if !self.fault_free() && (oh.mask.is_none() || or.mask.is_none()) {
            return self.skip("fault");
        }
        if let Some((field, d)) = obs_diff_cap(&oh, &or, "handle", "resplit", !self.fault_free(), self.ctx.sc.world.limits.step_max_items.max(64)) {
            if self.limit_error_latched(h) {
                return self.skip("limit_error_in_flight");
            }
            return Err(self.viol(
                "split_invariance",
                &format!("resplit_differs:{field}"),
                format!(
                    "bytes {:?}: split {:?} vs split {:?}: {d}",
                    String::from_utf8_lossy(&bytes),
                    hist,
                    toks
                ),
            ));
        }
        self.ev(format!("chk_resplit h{h} n={}", toks.len()));
        Ok(())
    }

    // ------------------------------------------------------------- C03

    pub fn chk_dead(&mut self, h: SlotId, depth: usize, nodes: usize) -> VResult<()> {
        if self.live_matcher(h).is_none() || self.ctx.tokref || !self.ctx.sc.productive {
            return self.skip("n/a");
        }
        if self.mh(h).is_stopped() {
            return self.skip("stopped");
        }
        let hist = self.slots[&h].hist.clone();
        let bytes = match self.hist_bytes(&hist) {
            Some(b) => b,
            None => return self.skip("special_in_history"),
        };
        let mut b = self.byte_matcher();
        if !bytes.is_empty() && b.consume_tokens(&Self::byte_tokens(&bytes)).is_err() {
            return self.skip("byte_replica_rejects");
        }
        self.stats.checks += 1;
        // Bounded search, from the byte-level replica of the current state, for a *reachable* state
        // that is not accepting and has an empty mask (a proved dead end: sound by construction,
        // a branch still alive at the bound is simply not reported). All allowed bytes are expanded
        // near the root, a deterministic sample of them deeper down.
        fn go(
            m: &mut llguidance::Matcher,
            depth: usize,
            level: usize,
            budget: &mut usize,
            path: &mut Vec<u8>,
            seed: u64,
        ) -> Option<Vec<u8>> {
            if m.is_stopped() {
                return None;
            }
            let acc = m.is_accepting().unwrap_or(true);
            if *budget == 0 {
                return None;
            }
            *budget -= 1;
            let mask = match m.compute_mask() {
                Ok(mk) => mk,
                Err(e) => {
                    return if classify_err(&e.to_string()) == ErrClass::NoExt && !acc {
                        Some(path.clone())
                    } else {
                        None
                    }
                }
            };
            let mut allowed = vec![];
            mask.iter_set_entries(|i| {
                if i < 256 {
                    allowed.push(i as u32)
                }
            });
            if allowed.is_empty() {
                return if acc { None } else { Some(path.clone()) };
            }
            if depth == 0 {
                return None;
            }
            let width = if level < 2 { 256 } else { 6 };
            if allowed.len() > width {
                // deterministic sample, always keeping the first and last allowed byte
                let mut r = crate::rng::Rng::new(seed ^ (path.len() as u64) << 32 ^ crate::rng::fnv_bytes(7, path));
                let first = allowed[0];
                let last = *allowed.last().unwrap();
                r.shuffle(&mut allowed);
                allowed.truncate(width - 2);
                allowed.push(first);
                allowed.push(last);
                allowed.sort();
                allowed.dedup();
            }
            for t in allowed {
                let mut c = m.clone();
                if c.consume_tokens(&[t]).is_err() {
                    continue;
                }
                path.push(t as u8);
                let r = go(&mut c, depth - 1, level + 1, budget, path, seed);
                path.pop();
                if r.is_some() {
                    return r;
                }
                if *budget == 0 {
                    break;
                }
            }
            None
        }
        let mut budget = nodes;
        let mut path = vec![];
        let seed = crate::rng::fnv_bytes(nodes as u64, &bytes);
        match go(&mut b, depth, 0, &mut budget, &mut path, seed) {
            Some(p) => Err(self.viol(
                "no_dead_end",
                "proved_dead_end",
                format!(
                    "h{h}: after {:?} the allowed bytes {:?} lead to a state that is not accepting and allows nothing",
                    String::from_utf8_lossy(&bytes),
                    String::from_utf8_lossy(&p)
                ),
            )),
            None => {
                if budget == 0 {
                    self.stats.probe("dead_end_search_budget_exhausted");
                } else {
                    self.stats.probe("dead_end_search_complete_to_depth");
                }
                self.ev(format!("chk_dead h{h} none"));
                Ok(())
            }
        }
    }

    pub fn chk_complete(&mut self, h: SlotId, attempts: usize, steps: usize, seed: u64) -> VResult<()> {
        if self.live_matcher(h).is_none() {
            return self.skip("dead");
        }
        if self.mh(h).is_stopped() {
            return self.skip("stopped");
        }
        let nv = self.ctx.n_vocab();
        let eos = self.ctx.world.eos();
        let mut rng = Rng::new(seed);
        self.stats.checks += 1;
        for _ in 0..attempts {
            let mut c = self.mh(h).clone_handle(true);
            for _ in 0..steps {
                if c.is_stopped() {
                    break;
                }
                let mask = match c.compute_mask(nv) {
                    Ok(m) => m,
                    Err(e) => {
                        if classify_err(&e.to_string()) == ErrClass::NoExt && self.ctx.sc.productive {
                            return Err(self.viol(
                                "no_dead_end",
                                "empty_mask_non_accepting",
                                format!("h{h}: guided completion reached an empty mask: {}", short(&e.to_string())),
                            ));
                        }
                        break;
                    }
                };
                if bit(&mask, eos) {
                    // (the primary EOS stands for all of them: eos_iff_accepting checks each)
                    self.stats.probe("guided_completion_ok");
                    self.ev(format!("chk_complete h{h} ok"));
                    return Ok(());
                }
                // greedy towards completion: prefer closers and short tokens
                let mut l = set_bits(&mask);
                l.sort_by_key(|t| {
                    let b = self.ctx.tok_bytes(*t);
                    let closer = b.iter().all(|x| b"\"}]);.\n ".contains(x));
                    (if closer { 0 } else { 1 }, b.len())
                });
                let k = l.len().min(4);
                let t = l[rng.below(k)];
                if c.consume_tokens(&[t]).is_err() {
                    break;
                }
            }
            if c.is_stopped() && !c.is_error() {
                self.stats.probe("guided_completion_ok");
                return Ok(());
            }
        }
        self.stats.probe("guided_completion_failed");
        self.ev(format!("chk_complete h{h} gave up"));
        Ok(())
    }

    // ------------------------------------------------------------- C10 / C17 (mirror groups)

    pub fn chk_mirror(&mut self, h: SlotId) -> VResult<()> {
        let group = self.mirror_group(h);
        if group.len() < 2 {
            return self.skip("no_mirror");
        }
        let nv = self.ctx.n_vocab();
        self.stats.checks += 1;
        let mut obs: Vec<(SlotId, Obs, &'static str, Vec<TokenId>)> = vec![];
        for g in &group {
            let s = match self.slots.get_mut(g) {
                Some(s) => s,
                None => continue,
            };
            let hist = s.hist.clone();
            if let H::M(m) = &mut s.h {
                let k = m.kind();
                let o = observe(m, nv);
                if o.mask.is_some() {
                    let sa = m.slices_applied();
                    if sa > 0 {
                        self.stats.probe("slice_applied");
                    }
                }
                obs.push((*g, o, k, hist));
            }
        }
        self.stats.masks += obs.len() as u64;
        // a member that hit a documented resource limit (the engines differ in cost) is out of the
        // comparison; it stays failed
        let mut limited = false;
        for (g, o, _, _) in &obs {
            if o.error || o.mask_err == Some(ErrClass::Limit) {
                let e = match &mut self.slots.get_mut(g).unwrap().h {
                    H::M(m) => m.get_error(),
                    _ => None,
                };
                let already = self.slots[g].failed.is_some();
                if let Some(e) = e {
                    if classify_err(&e) == ErrClass::Limit || already {
                        limited = true;
                        if !already {
                            self.on_matcher_err(*g, "observe", &e, true)?;
                        }
                    }
                }
            }
        }
        if limited {
            return self.skip("mirror_member_hit_limit");
        }
        for j in 1..obs.len() {
            if obs[0].3 != obs[j].3 {
                return Err(self.viol(
                    "mirror_equivalence",
                    "mirror_history_differs",
                    format!("h{} and h{} accepted different histories: {:?} vs {:?}", obs[0].0, obs[j].0, obs[0].3, obs[j].3),
                ));
            }
            if !self.fault_free() && (obs[0].1.mask.is_none() || obs[j].1.mask.is_none()) {
                continue;
            }
            let la = format!("h{}({})", obs[0].0, obs[0].2);
            let lb = format!("h{}({})", obs[j].0, obs[j].2);
            // the C matcher cannot report a stop reason / ff bytes: compare what both expose
            let mut a = obs[0].1.clone();
            let mut b = obs[j].1.clone();
            if obs[0].2 != obs[j].2 {
                a.reason = String::new();
                b.reason = String::new();
            }
            if let Some((field, d)) = obs_diff_cap(&a, &b, &la, &lb, false, self.ctx.sc.world.limits.step_max_items.max(64)) {
                return Err(self.viol(
                    "mirror_equivalence",
                    &format!("mirror_differs:{field}"),
                    format!("after {:?}: {d}", obs[0].3),
                ));
            }
        }
        if let Some(m) = &obs[0].1.mask {
            self.ev(format!("chk_mirror h{h} x{} {:016x}", obs.len(), hash_words(m)));
        }
        Ok(())
    }

    // ------------------------------------------------------------- C13

    pub fn chk_ff(&mut self, h: SlotId) -> VResult<()> {
        if self.live_matcher(h).is_none() {
            return self.skip("dead");
        }
        if self.mh(h).is_stopped() {
            return self.skip("stopped");
        }
        let hist = self.slots[&h].hist.clone();
        let fb = match self.mh(h).compute_ff_bytes() {
            Some(b) => b,
            None => return self.skip("no_ff_bytes_api"),
        };
        // (i') token level, any grammar (also token references): every token the engine would accept
        // next must be compatible with the forced bytes (one a prefix of the other); special tokens
        // appear in forced text as \xFF[id]
        if !fb.is_empty() {
            let alt = self.slots[&h].alt;
            let nv = self.ctx.n_vocab();
            let mut r = MH::R(self.fresh_matcher(alt));
            let fed = hist.is_empty() || r.consume_tokens(&hist).is_ok();
            if fed && !r.is_stopped() {
                for t in 0..nv as u32 {
                    if self.ctx.world.is_eos(t) {
                        continue;
                    }
                    if r.validate_tokens(&[t]).unwrap_or(0) != 1 {
                        continue;
                    }
                    let tb: Vec<u8> = if self.ctx.is_special(t) {
                        let mut x = vec![0xffu8];
                        x.extend_from_slice(format!("[{t}]").as_bytes());
                        x
                    } else {
                        self.ctx.tok_bytes(t).to_vec()
                    };
                    self.stats.tokens_checked += 1;
                    if !(fb.starts_with(&tb) || tb.starts_with(&fb)) {
                        return Err(self.viol(
                            "forced_bytes_unique",
                            "acceptable_token_contradicts_forced_bytes",
                            format!(
                                "h{h} after {:?}: forced bytes {:?}, but token {t} {:?} is acceptable too",
                                hist,
                                String::from_utf8_lossy(&fb),
                                String::from_utf8_lossy(&tb)
                            ),
                        ));
                    }
                }
                self.stats.probe("forced_bytes_token_level_checked");
            }
        }
        if self.ctx.tokref {
            self.stats.checks += 1;
            self.ev(format!("chk_ff h{h} tokref fb={}", fb.len()));
            return Ok(());
        }
        let bytes = match self.hist_bytes(&hist) {
            Some(b) => b,
            None => return self.skip("special_in_history"),
        };
        let fb = match Some(fb) {
            Some(b) => b,
            None => return self.skip("no_ff_bytes_api"),
        };
        let ft = self.mh(h).compute_ff_tokens();
        self.stats.checks += 1;
        if !fb.is_empty() {
            self.stats.probe("forced_bytes_nonempty");
        }
        if !ft.is_empty() {
            self.stats.probe("ff_tokens_nonempty");
        }
        // (ii) tokens decode to a prefix of the forced bytes and are accepted
        let mut dec = vec![];
        for &t in &ft {
            if (t as usize) >= self.ctx.n_vocab() || self.ctx.is_special(t) {
                return Err(self.viol(
                    "ff_tokens_prefix",
                    "ff_token_special_or_out_of_range",
                    format!("h{h}: ff token {t} is special or out of range"),
                ));
            }
            dec.extend_from_slice(self.ctx.tok_bytes(t));
        }
        if !fb.starts_with(&dec) {
            return Err(self.viol(
                "ff_tokens_prefix",
                "ff_tokens_not_prefix_of_forced_bytes",
                format!(
                    "h{h}: ff tokens {:?} decode to {:?}, forced bytes are {:?}",
                    ft,
                    String::from_utf8_lossy(&dec),
                    String::from_utf8_lossy(&fb)
                ),
            ));
        }
        if !ft.is_empty() {
            let mut cl = self.mh(h).clone_handle(true);
            if let Err(e) = cl.consume_tokens(&ft) {
                let c = classify_err(&e.to_string());
                if c == ErrClass::Misuse || (self.fault_free() && c != ErrClass::Limit) {
                    return Err(self.viol(
                        "ff_tokens_accepted",
                        "ff_tokens_rejected",
                        format!("h{h}: committing ff tokens {:?} failed: {}", ft, short(&e.to_string())),
                    ));
                }
            }
        }
        // (i) every forced byte is the only byte the grammar allows at that position
        if !fb.is_empty() {
            let mut b = self.byte_matcher();
            if !bytes.is_empty() {
                if let Err(e) = b.consume_tokens(&Self::byte_tokens(&bytes)) {
                    if classify_err(&e.to_string()) == ErrClass::Limit {
                        return self.skip("byte_replica_hit_limit");
                    }
                    return Err(self.viol(
                        "split_invariance",
                        "byte_replica_rejects_history",
                        format!("byte replica rejects {:?}: {}", String::from_utf8_lossy(&bytes), short(&e.to_string())),
                    ));
                }
            }
            for (i, &fbyte) in fb.iter().enumerate() {
                if b.is_stopped() {
                    return Err(self.viol(
                        "forced_bytes_unique",
                        "forced_byte_after_completion",
                        format!("h{h}: forced byte #{i} of {:?} but the grammar is complete", String::from_utf8_lossy(&fb)),
                    ));
                }
                if b.is_accepting().unwrap_or(false) {
                    return Err(self.viol(
                        "forced_bytes_unique",
                        "forced_byte_in_accepting_state",
                        format!("h{h}: forced byte #{i} of {:?} although stopping is allowed there", String::from_utf8_lossy(&fb)),
                    ));
                }
                let mask = match b.compute_mask() {
                    Ok(m) => m,
                    Err(e) => {
                        if classify_err(&e.to_string()) == ErrClass::Limit {
                            return self.skip("byte_replica_hit_limit");
                        }
                        return Err(self.viol(
                            "forced_bytes_unique",
                            "forced_byte_replica_mask_failed",
                            format!("byte replica mask failed: {}", short(&e.to_string())),
                        ))
                    }
                };
                let mut allowed = vec![];
                mask.iter_set_entries(|x| {
                    if x < 256 {
                        allowed.push(x as u8)
                    }
                });
                if allowed != vec![fbyte] {
                    return Err(self.viol(
                        "forced_bytes_unique",
                        "forced_byte_not_unique",
                        format!(
                            "h{h} after {:?}: forced bytes {:?}, but at offset {i} the grammar allows bytes {:?}",
                            String::from_utf8_lossy(&bytes),
                            String::from_utf8_lossy(&fb),
                            allowed.iter().map(|x| *x as char).collect::<String>()
                        ),
                    ));
                }
                if b.consume_tokens(&[fbyte as u32]).is_err() {
                    return Err(self.viol(
                        "forced_bytes_unique",
                        "forced_byte_rejected",
                        format!("byte replica rejects forced byte #{i}"),
                    ));
                }
            }
        } else {
            // conversely: if the byte replica allows exactly one byte (and is not accepting),
            // nothing requires the engine to report it (force_bytes is best effort) - not judged.
        }
        self.ev(format!("chk_ff h{h} fb={} ft={:?}", hex_short(&fb), ft));
        Ok(())
    }
}

fn hex_short(b: &[u8]) -> String {
    String::from_utf8_lossy(b).to_string()
}
