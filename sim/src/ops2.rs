//! Constraint (sampling loop) operations, C-API batch masks, stop controller operations
//! and their oracles (M-proto, M-buf, M-stop).

use std::ffi::{c_void, CString};
use std::sync::atomic::{AtomicU32, Ordering};

use llguidance::ffi::*;
use llguidance::toktrie::TokenId;

use crate::checks::mask_diff;
use crate::exec::*;
use crate::handle::*;
use crate::scenario::*;
use crate::sched;

pub const BYTE_EOS: u32 = 259;
const CANARY: u32 = 0xC0DE_CAFE;
const FILL: u32 = 0x5EED_F00D;
const GUARD_WORDS: usize = 8;

extern "C" fn done_cb(user_data: *const c_void) {
    let c: &AtomicU32 = unsafe { &*(user_data as *const AtomicU32) };
    c.fetch_add(1, Ordering::SeqCst);
}

impl<'a> Exec<'a> {
    fn ch(&mut self, h: SlotId) -> Option<&mut CH> {
        match self.slots.get_mut(&h) {
            Some(s) => match &mut s.h {
                H::C(c) => Some(c),
                _ => None,
            },
            None => None,
        }
    }

    fn on_constraint_err(&mut self, h: SlotId, what: &str, msg: &str, legal: bool) -> VResult<()> {
        let cls = classify_err(msg);
        self.ev(format!("{what} h{h} ERR {:?}", cls));
        let productive = self.ctx.sc.productive;
        let already = self.slots[&h].failed.is_some();
        if already {
            return Ok(());
        }
        match cls {
            ErrClass::Panic => {
                if msg.contains("simulated deadlock") {
                    return Err(self.viol("deadlock", "deadlock", short(msg)));
                }
                // an out-of-order / invalid call that trips an internal assertion is still
                // reported as an error to the caller (caught at the API boundary): tolerated
                if legal {
                    return Err(self.viol(
                        "no_internal_panic",
                        &format!("panic:{what}"),
                        format!("{what} on h{h} failed with an internal panic: {}", short(msg)),
                    ));
                }
                self.stats.probe("illegal_call_tripped_assertion");
            }
            ErrClass::NoExt if productive && legal => {
                return Err(self.viol(
                    "no_dead_end",
                    "empty_mask_non_accepting",
                    format!("{what} on h{h}: {}", short(msg)),
                ));
            }
            ErrClass::Misuse | ErrClass::Other if legal => {
                return Err(self.viol(
                    "legal_call_rejected",
                    &format!("rejected:{what}"),
                    format!("legal {what} on h{h} was rejected: {}", short(msg)),
                ));
            }
            _ => {}
        }
        let s = self.slots.get_mut(&h).unwrap();
        // C handles drop the constraint on any error (sticky); Rust constraints stay as they are
        let sticky = matches!(&s.h, H::C(CH::C(_))) || cls == ErrClass::Limit;
        if sticky {
            s.failed = Some(msg.to_string());
        }
        s.c_pending_mask = None;
        Ok(())
    }

    pub fn op_cstart(&mut self, h: SlotId, prompt: &[u32]) -> VResult<()> {
        let canonical = self.ctx.world.spec.canonical;
        let s = match self.slots.get_mut(&h) {
            Some(s) => s,
            None => return Ok(()),
        };
        if s.c_started {
            return Ok(());
        }
        s.c_started = true;
        let c = match &mut s.h {
            H::C(CH::R(c)) => c,
            _ => return Ok(()), // the C API has no prompt processing
        };
        if !canonical {
            c.start_without_prompt();
            self.ev(format!("cstart h{h} noprompt"));
            return Ok(());
        }
        // conservation: returned prompt ++ pending forced text == original prompt ++ forced bytes
        // special tokens appear in forced text as \xFF[id]: decode them the same way
        let trie_decode = |toks: &[u32], me: &Exec| -> Vec<u8> {
            toks.iter()
                .flat_map(|t| {
                    if me.ctx.is_special(*t) {
                        let mut x = vec![0xffu8];
                        x.extend_from_slice(format!("[{t}]").as_bytes());
                        x
                    } else {
                        me.ctx.tok_bytes(*t).to_vec()
                    }
                })
                .collect()
        };
        let res = c.process_prompt(prompt.to_vec());
        let pending = c.parser.force_bytes();
        self.stats.probe("prompt_processed");
        if res.len() < prompt.len() || res[..prompt.len().min(res.len())] != prompt[..prompt.len().min(res.len())] {
            self.stats.probe("token_healing_chopped_prompt");
        }
        let mut fresh = self.fresh_matcher(None);
        let forced_fresh = fresh.compute_ff_bytes();
        let mut lhs = trie_decode(&res, self);
        lhs.extend_from_slice(&pending);
        let mut rhs = trie_decode(prompt, self);
        rhs.extend_from_slice(&forced_fresh);
        if prompt.iter().any(|t| self.ctx.is_special(*t)) {
            return self.skip_c("special_in_prompt");
        }
        self.stats.checks += 1;
        if lhs != rhs {
            return Err(self.viol(
                "prompt_conservation",
                "prompt_text_not_conserved",
                format!(
                    "h{h}: process_prompt returned {:?} + pending {:?}, expected {:?} + forced {:?}",
                    String::from_utf8_lossy(&trie_decode(&res, self)),
                    String::from_utf8_lossy(&pending),
                    String::from_utf8_lossy(&trie_decode(prompt, self)),
                    String::from_utf8_lossy(&forced_fresh)
                ),
            ));
        }
        // model: tokens of the grammar that were moved into the prompt count as history *bytes*;
        // we remember them through the text oracle (hist stays token based from here on)
        let moved = res.len() as isize - prompt.len() as isize;
        self.ev(format!("cstart h{h} prompt={} res={} moved={moved}", prompt.len(), res.len()));
        let s = self.slots.get_mut(&h).unwrap();
        s.c_pending_mask = None;
        // bytes of the grammar already emitted as part of the returned prompt
        let dec_res = trie_decode(&res, self);
        let dec_p = trie_decode(prompt, self);
        let s = self.slots.get_mut(&h).unwrap();
        s.ops_since_fault = 0;
        if dec_res.len() >= dec_p.len() {
            // grammar bytes moved into the prompt
            self.prompt_grm_bytes.insert(h, (dec_res[dec_p.len()..].to_vec(), 0));
        } else {
            // the tail of the prompt will be re-generated (healed)
            self.prompt_grm_bytes
                .insert(h, (vec![], dec_p.len() - dec_res.len()));
        }
        Ok(())
    }

    fn skip_c(&mut self, why: &str) -> VResult<()> {
        self.stats.checks_skipped += 1;
        self.ev(format!("chk skipped {why}"));
        Ok(())
    }

    /// compute_mask and/or commit_token on a constraint slot and all its mirrors
    pub fn op_cstep(&mut self, h: SlotId, pick: Option<&Pick>, do_mask: bool, do_commit: bool) -> VResult<()> {
        if self.ch(h).is_none() {
            return Ok(());
        }
        let nv = self.ctx.n_vocab();
        let eos = self.ctx.world.eos();
        let group = self.mirror_group(h);
        let mut outs: Vec<(SlotId, StepOut)> = vec![];
        if do_mask {
            for &g in &group {
                let (failed, stopped, uncertain) = {
                    let s = &self.slots[&g];
                    (s.failed.is_some(), s.c_stopped, s.ops_since_fault > 0)
                };
                let r = match self.ch(g) {
                    Some(c) => c.compute_mask(nv),
                    None => continue,
                };
                self.stats.masks += 1;
                match r {
                    Ok(o) => {
                        // after a rejected call a Rust constraint is either still usable or failed;
                        // a successful mask says "usable" (ChkText then holds it to the fresh engine)
                        self.slots.get_mut(&g).unwrap().ops_since_fault = 0;
                        if failed {
                            return Err(self.viol(
                                "sticky_failure",
                                "mask_after_failure",
                                format!("h{g} had failed but compute_mask succeeded"),
                            ));
                        }
                        if stopped {
                            return Err(self.viol(
                                "mask_after_stop",
                                "constraint_mask_after_stop",
                                format!("h{g}: compute_mask after stop returned {:?}", matches!(o, StepOut::Stop)),
                            ));
                        }
                        let s = self.slots.get_mut(&g).unwrap();
                        s.c_started = true;
                        match &o {
                            StepOut::Mask(m) => {
                                s.c_pending_mask = Some(m.clone());
                                let m2 = m.clone();
                                self.check_mask_range(g, &m2)?;
                                if set_bits(&m2).is_empty() {
                                    return Err(self.viol(
                                        "mask_eq_accept",
                                        "empty_sample_mask",
                                        format!("h{g}: compute_mask returned an empty sample mask"),
                                    ));
                                }
                                self.ev(format!("cmask h{g} {:016x}", hash_words(&m2)));
                            }
                            StepOut::Stop => {
                                s.c_stopped = true;
                                s.c_pending_mask = None;
                                self.ev(format!("cmask h{g} STOP"));
                                self.stats.probe("constraint_stop_reported");
                            }
                            StepOut::Splice(t) => {
                                let ff = s.c_ff;
                                let t = t.clone();
                                if !ff {
                                    return Err(self.viol(
                                        "splice_without_ff",
                                        "splice_without_ff",
                                        format!("h{g}: unconditional splice {:?} although ff_tokens are off", t),
                                    ));
                                }
                                self.ev(format!("cmask h{g} splice {:?}", t));
                            }
                        }
                        outs.push((g, o));
                    }
                    Err(e) => {
                        let legal = !failed && !stopped && !uncertain;
                        if stopped && !failed {
                            self.stats.fault("call_after_stop");
                        }
                        self.on_constraint_err(g, "cmask", &e.to_string(), legal)?;
                        if uncertain {
                            // the earlier rejected call left the engine failed: from now on sticky
                            let s = self.slots.get_mut(&g).unwrap();
                            if s.failed.is_none() {
                                s.failed = Some(e.to_string());
                            }
                        }
                    }
                }
            }
            // mirrors agree on what compute_mask returned
            for j in 1..outs.len() {
                if outs[0].1 != outs[j].1 && self.fault_free() {
                    let d = match (&outs[0].1, &outs[j].1) {
                        (StepOut::Mask(a), StepOut::Mask(b)) => {
                            let (t, ina) = mask_diff(a, b).unwrap();
                            format!("token {t}: h{}={ina} h{}={}", outs[0].0, outs[j].0, !ina)
                        }
                        (a, b) => format!("{:?} vs {:?}", std::mem::discriminant(a), std::mem::discriminant(b)),
                    };
                    return Err(self.viol(
                        "mirror_equivalence",
                        "mirror_differs:constraint_mask",
                        format!("h{} vs h{}: {d}", outs[0].0, outs[j].0),
                    ));
                }
            }
            // ... and on the sampling temperature that goes with a mask (C17: LlgMaskResult.temperature
            // and llg_get_temperature against the Rust constraint)
            let mut temps: Vec<(SlotId, (f32, f32))> = vec![];
            for (g, o) in &outs {
                if matches!(o, StepOut::Mask(_)) {
                    if let Some(c) = self.ch(*g) {
                        temps.push((*g, c.temperature()));
                    }
                }
            }
            if temps.iter().any(|(_, (a, _))| *a != 0.0) {
                self.stats.probe("nonzero_temperature_compared");
            }
            for (g, (a, b)) in &temps {
                if a.to_bits() != b.to_bits() && self.fault_free() {
                    return Err(self.viol(
                        "mirror_equivalence",
                        "temperature_inconsistent",
                        format!("h{g}: temperature of the constraint {a} differs from the mask result's {b}"),
                    ));
                }
            }
            for j in 1..temps.len() {
                if temps[0].1 .0.to_bits() != temps[j].1 .0.to_bits() && self.fault_free() {
                    return Err(self.viol(
                        "mirror_equivalence",
                        "mirror_differs:temperature",
                        format!("h{} temperature {} vs h{} temperature {}", temps[0].0, temps[0].1 .0, temps[j].0, temps[j].1 .0),
                    ));
                }
            }
        }
        if !do_commit {
            return Ok(());
        }
        let pick = pick.unwrap();
        // resolve on the leader's pending mask
        let leader_mask = self.slots[&h].c_pending_mask.clone();
        let leader_stopped = self.slots[&h].c_stopped;
        let tok: Option<TokenId> = if leader_stopped {
            None
        } else {
            self.resolve_pick(leader_mask.as_ref(), pick)
        };
        match pick {
            Pick::Outside(_) => self.stats.fault("token_not_in_mask"),
            Pick::OutOfRange(_) => self.stats.fault("token_out_of_range"),
            _ => {}
        }
        if leader_mask.is_none() && !leader_stopped {
            self.stats.fault("commit_without_mask");
        }
        let mut couts: Vec<(SlotId, CommitOut)> = vec![];
        for &g in &group {
            let (failed, stopped, pending, ff) = {
                let s = &self.slots[&g];
                (s.failed.is_some(), s.c_stopped, s.c_pending_mask.clone(), s.c_ff)
            };
            let r = match self.ch(g) {
                Some(c) => c.commit_token(tok),
                None => continue,
            };
            self.stats.commits += 1;
            let honest = pick.is_honest() && pending.is_some() && tok.map(|t| bit(pending.as_ref().unwrap(), t)).unwrap_or(false);
            match r {
                Ok(o) => {
                    if failed {
                        // C handles drop the constraint on any error: every later call must fail.
                        // A Rust Constraint keeps its last step result; commit_token without a
                        // successful compute_mask re-reports it (tolerated out-of-order call, see
                        // DESIGN.md C18) - compute_mask is what must keep failing.
                        let is_c = matches!(self.slots[&g].h, H::C(CH::C(_)));
                        if is_c {
                            return Err(self.viol(
                                "sticky_failure",
                                "commit_after_failure",
                                format!("h{g} had failed but commit_token succeeded"),
                            ));
                        }
                        self.ev(format!("ccommit h{g} after-failure (re-reports last result)"));
                        continue;
                    }
                    if stopped {
                        // commit after stop: only allowed to keep reporting the stop
                        if !o.stop || !o.tokens.is_empty() {
                            return Err(self.viol(
                                "commit_after_stop",
                                "constraint_commit_after_stop",
                                format!("h{g}: commit after stop returned stop={} tokens={:?}", o.stop, o.tokens),
                            ));
                        }
                        self.ev(format!("ccommit h{g} after-stop"));
                        couts.push((g, o));
                        continue;
                    }
                    if pending.is_none() {
                        // commit without a mask: the Rust constraint treats a pending splice/no-op as done
                        self.ev(format!("ccommit h{g} without-mask tokens={:?}", o.tokens));
                        let s = self.slots.get_mut(&g).unwrap();
                        s.c_pending_mask = None;
                        if !o.tokens.is_empty() {
                            // it re-reports the previous splice: nothing new was committed
                        }
                        couts.push((g, o));
                        continue;
                    }
                    let t = tok.unwrap();
                    if (t as usize) >= nv {
                        return Err(self.viol(
                            "token_range",
                            "out_of_range_accepted",
                            format!("h{g} accepted out-of-range token {t}"),
                        ));
                    }
                    if !bit(pending.as_ref().unwrap(), t) {
                        return Err(self.viol(
                            "mask_eq_accept",
                            "commit_accepts_token_outside_mask",
                            format!("h{g}: token {t} was not in the mask but commit_token accepted it"),
                        ));
                    }
                    if o.tokens.first() != Some(&t) {
                        return Err(self.viol(
                            "commit_result",
                            "commit_result_lost_sampled_token",
                            format!("h{g}: committed {t} but result tokens are {:?}", o.tokens),
                        ));
                    }
                    if !ff && o.tokens.len() != 1 {
                        return Err(self.viol(
                            "commit_result",
                            "ff_tokens_without_capability",
                            format!("h{g}: ff_tokens off but commit returned {:?}", o.tokens),
                        ));
                    }
                    if o.tokens.len() > 1 {
                        self.stats.probe("ff_tokens_in_commit");
                    }
                    if o.tokens.iter().any(|x| (*x as usize) >= nv) {
                        return Err(self.viol(
                            "token_range",
                            "commit_returned_out_of_range_token",
                            format!("h{g}: commit returned tokens {:?}", o.tokens),
                        ));
                    }
                    let s = self.slots.get_mut(&g).unwrap();
                    s.hist.extend_from_slice(&o.tokens);
                    s.c_pending_mask = None;
                    if o.stop {
                        // "It only returns STOP if previous compute_mask() already returned STOP"
                        return Err(self.viol(
                            "commit_result",
                            "commit_reports_stop_without_mask_stop",
                            format!("h{g}: commit_token returned stop although compute_mask had returned a mask"),
                        ));
                    }
                    if o.tokens.iter().any(|t| self.ctx.world.is_eos(*t)) {
                        self.stats.probe("eos_committed");
                        if o.tokens.iter().any(|t| self.ctx.world.is_eos(*t) && *t != eos) {
                            self.stats.probe("secondary_eos_committed");
                        }
                    }
                    let hist = s.hist.clone();
                    self.ev(format!("ccommit h{g} {t} -> {:?}", o.tokens));
                    self.state_hash(&hist);
                    couts.push((g, o));
                }
                Err(e) => {
                    let legal = honest && !failed && !stopped;
                    self.on_constraint_err(g, "ccommit", &e.to_string(), legal)?;
                    // a rejected call leaves a C handle failed (it drops the constraint); a Rust
                    // constraint is either still usable or failed - the next compute_mask tells
                    let s = self.slots.get_mut(&g).unwrap();
                    let is_c = matches!(s.h, H::C(CH::C(_)));
                    if is_c {
                        if s.failed.is_none() {
                            s.failed = Some(e.to_string());
                        }
                    } else if s.failed.is_none() {
                        s.ops_since_fault = 1;
                        s.c_pending_mask = None;
                        s.rejected_commit = true;
                        // F8 needs a rejected token whose first byte(s) the grammar accepts here
                        let hist = s.hist.clone();
                        let partial = match tok {
                            Some(t) if (t as usize) < nv && !self.ctx.is_special(t) => {
                                let first = self.ctx.tok_bytes(t).first().copied();
                                let (gp, _) = self.prompt_grm_bytes.get(&g).cloned().unwrap_or((vec![], 0));
                                match (self.hist_bytes(&hist), first) {
                                    (Some(hb), Some(fb)) => {
                                        let mut bt: Vec<u32> = gp.iter().chain(hb.iter()).map(|b| *b as u32).collect();
                                        bt.push(fb as u32);
                                        let mut b = self.byte_matcher();
                                        b.validate_tokens(&bt).unwrap_or(0) == bt.len()
                                    }
                                    (None, _) => true,
                                    _ => false,
                                }
                            }
                            _ => false,
                        };
                        if partial {
                            self.slots.get_mut(&g).unwrap().rejected_partial = true;
                        }
                    }
                }
            }
        }
        // mirrors (same capabilities) agree on commit results
        for j in 1..couts.len() {
            let (ga, gb) = (couts[0].0, couts[j].0);
            if self.slots[&ga].c_ff == self.slots[&gb].c_ff && couts[0].1 != couts[j].1 && self.fault_free() {
                return Err(self.viol(
                    "mirror_equivalence",
                    "mirror_differs:commit_result",
                    format!("h{ga}: {:?} vs h{gb}: {:?}", couts[0].1, couts[j].1),
                ));
            }
        }
        Ok(())
    }

    /// C13 (iii) / C18: text assembled so far, pending mask and stop status of a constraint
    /// against the byte replica and a fresh matcher fed the same tokens.
    pub fn chk_text(&mut self, h: SlotId) -> VResult<()> {
        let nv = self.ctx.n_vocab();
        let eos = self.ctx.world.eos();
        let (hist, failed, stopped, pending, rejected) = match self.slots.get(&h) {
            Some(s) if matches!(s.h, H::C(_)) => (
                s.hist.clone(),
                s.failed.is_some(),
                s.c_stopped,
                s.c_pending_mask.clone(),
                s.rejected_commit,
            ),
            _ => return self.skip_c("no_slot"),
        };
        // known finding F8: a Rust Constraint that rejected a token may have consumed part of its
        // bytes and stays "usable"; violations after that point carry their own signature (only
        // when the rejected token did start with bytes the grammar accepted)
        let partial = self.slots.get(&h).map(|s| s.rejected_partial).unwrap_or(false);
        let sfx = if rejected && partial { ":after_rejected_commit" } else { "" };
        if failed {
            return self.skip_c("failed");
        }
        if self.ctx.tokref {
            return self.skip_c("tokref_grammar");
        }
        let (grm_in_prompt, healed) = self.prompt_grm_bytes.get(&h).cloned().unwrap_or((vec![], 0));
        if healed > 0 {
            // part of the prompt is re-generated through the grammar prefix; the byte replica
            // would have to skip it - covered by the prompt conservation check instead
            return self.skip_c("healed_prompt");
        }
        let _ = eos;
        let (hist_noeos, had_eos) = match hist.last() {
            Some(t) if self.ctx.world.is_eos(*t) => (&hist[..hist.len() - 1], true),
            _ => (&hist[..], false),
        };
        let mut bytes = grm_in_prompt.clone();
        match self.hist_bytes(hist_noeos) {
            Some(b) => bytes.extend_from_slice(&b),
            None => return self.skip_c("special_in_history"),
        }
        self.stats.checks += 1;
        let bt: Vec<u32> = bytes.iter().map(|b| *b as u32).collect();
        let mut b = self.byte_matcher();
        // text is a viable prefix
        let n_ok = if bt.is_empty() { 0 } else { b.validate_tokens(&bt).unwrap_or(0) };
        if n_ok != bt.len() {
            return Err(self.viol(
                "text_valid_prefix",
                &format!("{}{sfx}", "assembled_text_rejected_by_bytes"),
                format!(
                    "h{h}: assembled text {:?} is rejected by the byte replica at offset {n_ok}",
                    String::from_utf8_lossy(&bytes)
                ),
            ));
        }
        if grm_in_prompt.is_empty() && !rejected {
            self.chk_replayed_constraint(h, &hist, stopped, &pending)?;
        }
        if stopped {
            // complete string of the grammar, and cannot be extended or EOS was committed
            let mut seq = bt.clone();
            seq.push(BYTE_EOS);
            let acc = b.validate_tokens(&seq).unwrap_or(0) == seq.len();
            if !acc {
                return Err(self.viol(
                    "stop_iff_complete",
                    &format!("{}{sfx}", "stopped_on_incomplete_text"),
                    format!("h{h}: stop reported but {:?} is not a complete string of the grammar", String::from_utf8_lossy(&bytes)),
                ));
            }
            if !had_eos {
                seq.pop();
                let mut ext = false;
                for x in 0..256u32 {
                    seq.push(x);
                    if b.validate_tokens(&seq).unwrap_or(0) == seq.len() {
                        ext = true;
                    }
                    seq.pop();
                    if ext {
                        break;
                    }
                }
                if ext {
                    return Err(self.viol(
                        "stop_iff_complete",
                        &format!("{}{sfx}", "stopped_but_extendable"),
                        format!("h{h}: stop reported without EOS but {:?} can be extended", String::from_utf8_lossy(&bytes)),
                    ));
                }
            }
            self.stats.probe("natural_stop_checked");
            self.ev(format!("chk_text h{h} stopped ok"));
            return Ok(());
        }
        if let Some(pm) = pending {
            if !grm_in_prompt.is_empty() {
                return self.skip_c("grammar_bytes_in_prompt");
            }
            // the pending mask equals the mask of a fresh matcher fed the same tokens
            let mut r = MH::R(self.fresh_matcher(None));
            if !hist.is_empty() {
                if let Err(e) = r.consume_tokens(&hist) {
                    if self.fault_free() {
                        return Err(self.viol(
                            "fresh_equivalence",
                            "fresh_rejects_history",
                            format!("fresh matcher rejects constraint history {:?}: {}", hist, short(&e.to_string())),
                        ));
                    }
                    return self.skip_c("fresh_failed");
                }
            }
            if !r.is_stopped() {
                let fb = r.compute_ff_bytes().map(|b| b.len()).unwrap_or(0);
                let cap = self.ctx.sc.world.limits.step_max_items.max(64);
                if fb >= cap || hist.len() >= cap / 8 {
                    return self.skip_c("unbounded_forcing");
                }
            }
            if r.is_stopped() {
                return Err(self.viol(
                    "stop_iff_complete",
                    &format!("{}{sfx}", "complete_but_not_stopped"),
                    format!("h{h}: a fresh matcher fed {:?} is stopped, the constraint returned a mask", hist),
                ));
            }
            match r.compute_mask(nv) {
                Ok(rm) => {
                    if let Some((t, ina)) = mask_diff(&pm, &rm) {
                        return Err(self.viol(
                            "fresh_equivalence",
                            &format!("{}{sfx}", "differs_from_fresh:mask"),
                            format!("h{h} after {:?}: token {t} constraint={ina} fresh={}", hist, !ina),
                        ));
                    }
                }
                Err(e) => {
                    if self.fault_free() {
                        return Err(self.viol(
                            "fresh_equivalence",
                            &format!("{}{sfx}", "differs_from_fresh:mask_result"),
                            format!("fresh matcher mask failed: {}", short(&e.to_string())),
                        ));
                    }
                }
            }
        }
        self.ev(format!("chk_text h{h} ok {}", bytes.len()));
        Ok(())
    }

    /// C11 at the sampling-loop level: a constraint whose history is installed with
    /// start_without_prompt() + force_tokens() (the documented replay path) answers the next
    /// compute_mask() exactly like the constraint that was driven step by step.
    fn chk_replayed_constraint(
        &mut self,
        h: SlotId,
        hist: &[TokenId],
        stopped: bool,
        pending: &Option<Vec<u32>>,
    ) -> VResult<()> {
        if !stopped && pending.is_none() {
            return Ok(());
        }
        let nv = self.ctx.n_vocab();
        let p = match self.ctx.world.new_parser_with(&self.ctx.world.factory) {
            Ok(p) => p,
            Err(_) => return Ok(()),
        };
        let mut c = llguidance::Constraint::new(p);
        c.start_without_prompt();
        if c.force_tokens(hist).is_err() {
            if self.fault_free() {
                return Err(self.viol(
                    "fresh_equivalence",
                    "replayed_constraint_rejects_history",
                    format!("force_tokens({:?}) fails on a fresh constraint", hist),
                ));
            }
            return Ok(());
        }
        let mut ch = CH::R(c);
        let r = ch.compute_mask(nv);
        self.stats.probe("constraint_replay_compared");
        match (r, stopped, pending) {
            (Ok(StepOut::Stop), true, _) => Ok(()),
            (Ok(StepOut::Mask(m)), false, Some(pm)) => {
                if let Some((t, ina)) = mask_diff(pm, &m) {
                    return Err(self.viol(
                        "fresh_equivalence",
                        "differs_from_replayed_constraint:mask",
                        format!("h{h} after {:?}: token {t} stepwise={ina} replayed={}", hist, !ina),
                    ));
                }
                Ok(())
            }
            (Ok(o), _, _) => Err(self.viol(
                "fresh_equivalence",
                "differs_from_replayed_constraint:step",
                format!(
                    "h{h} after {:?}: stepwise constraint {} but the replayed one returns {}",
                    hist,
                    if stopped { "reported STOP" } else { "returned a mask" },
                    match o {
                        StepOut::Stop => "STOP",
                        StepOut::Mask(_) => "a mask",
                        StepOut::Splice(_) => "a splice",
                    }
                ),
            )),
            (Err(e), _, _) => {
                if self.fault_free() && classify_err(&e.to_string()) != ErrClass::Limit {
                    return Err(self.viol(
                        "fresh_equivalence",
                        "differs_from_replayed_constraint:error",
                        format!("h{h} after {:?}: replayed constraint fails: {}", hist, short(&e.to_string())),
                    ));
                }
                Ok(())
            }
        }
    }

    // ------------------------------------------------------------- llg_par_compute_mask (M-buf)

    pub fn op_par_mask(&mut self, hs: &[SlotId], words: &[usize], is_async: bool, quirks: &[u8]) -> VResult<()> {
        let quirk = |i: usize| quirks.get(i).copied().unwrap_or(0);
        let nv = self.ctx.n_vocab();
        let eos = self.ctx.world.eos() as usize;
        let exact = nv.div_ceil(32);
        let mut ptrs = vec![];
        for &h in hs {
            match self.slots.get_mut(&h) {
                Some(Slot {
                    h: H::C(CH::C(c)), ..
                }) => ptrs.push(c.p),
                _ => return Ok(()),
            }
        }
        let mut bufs: Vec<Vec<u32>> = words
            .iter()
            .map(|w| {
                let mut v = vec![FILL; *w + 2 * GUARD_WORDS];
                for i in 0..GUARD_WORDS {
                    v[i] = CANARY;
                    let n = v.len();
                    v[n - 1 - i] = CANARY;
                }
                v
            })
            .collect();
        // asynchronous completion: if the callback were ever invoked before all steps finished, the
        // workers would still be writing when this function returns with a violation - the buffers
        // are therefore leaked (never freed) in async mode, so that the report gets out
        let bufs: &mut Vec<Vec<u32>> = if is_async {
            Box::leak(Box::new(std::mem::take(&mut bufs)))
        } else {
            &mut bufs
        };
        // destinations of the NULL-constraint steps: must stay untouched
        let n_null = (0..hs.len()).filter(|i| quirk(*i) == 1).count();
        let null_bufs: &mut Vec<Vec<u32>> = Box::leak(Box::new(vec![vec![FILL; exact + 2]; n_null]));
        let mut steps: Vec<LlgConstraintStep> = vec![];
        {
            let mut ni = 0;
            for (i, ((p, b), w)) in ptrs.iter().zip(bufs.iter_mut()).zip(words.iter()).enumerate() {
                let q = quirk(i);
                if q == 1 {
                    steps.push(LlgConstraintStep {
                        constraint: std::ptr::null_mut(),
                        mask_dest: null_bufs[ni].as_mut_ptr(),
                        mask_byte_len: (exact + 2) * 4,
                    });
                    ni += 1;
                    self.stats.fault("par_step_null_constraint");
                }
                steps.push(LlgConstraintStep {
                    constraint: *p,
                    mask_dest: if q == 3 { std::ptr::null_mut() } else { unsafe { b.as_mut_ptr().add(GUARD_WORDS) } },
                    mask_byte_len: if q == 2 { *w * 4 + 2 } else { *w * 4 },
                });
                if q == 2 || q == 3 {
                    self.stats.fault("par_step_bad_parameters");
                }
            }
        }
        let counter = Box::new(AtomicU32::new(0));
        let before: Vec<(bool, bool)> = hs
            .iter()
            .map(|h| {
                let s = &self.slots[h];
                (s.failed.is_some(), s.c_stopped)
            })
            .collect();
        unsafe {
            llg_par_compute_mask(
                steps.as_ptr(),
                steps.len(),
                &*counter as *const AtomicU32 as *const c_void,
                if is_async { Some(done_cb) } else { None },
            );
        }
        if is_async {
            self.stats.probe("par_mask_async");
            let ok = sched::wait_until(&|| counter.load(Ordering::SeqCst) >= 1);
            if !ok {
                return Err(self.viol(
                    "par_callback",
                    "par_callback_never_fired",
                    "llg_par_compute_mask: completion callback never fired".into(),
                ));
            }
        } else {
            self.stats.probe("par_mask_sync");
            if counter.load(Ordering::SeqCst) != 0 {
                return Err(self.viol(
                    "par_callback",
                    "par_callback_without_cb",
                    "callback fired although none was given".into(),
                ));
            }
        }
        // expected result per step: the constraint's own mask computed again (C11 makes this
        // the same mask), cross-checked against the Rust mirror by CStep/ChkMirror elsewhere
        for nb in null_bufs.iter() {
            if nb.iter().any(|x| *x != FILL) {
                return Err(self.viol(
                    "caller_buffer_contents",
                    "null_step_buffer_written",
                    "llg_par_compute_mask wrote into the destination of a step whose constraint is NULL".into(),
                ));
            }
        }
        for (i, &h) in hs.iter().enumerate() {
            let w = words[i];
            let buf = &bufs[i];
            if quirk(i) == 2 || quirk(i) == 3 {
                // invalid step parameters: the error goes to that constraint, nothing is written
                let (failed0, _) = before[i];
                if buf[GUARD_WORDS..GUARD_WORDS + w].iter().any(|x| *x != FILL) || buf[..GUARD_WORDS].iter().any(|x| *x != CANARY) {
                    return Err(self.viol(
                        "caller_buffer_contents",
                        "bad_step_buffer_written",
                        format!("h{h}: step with invalid parameters but its destination was written"),
                    ));
                }
                let err_now = self.ch(h).and_then(|c| c.has_error());
                if err_now.is_none() && !failed0 {
                    return Err(self.viol(
                        "c_result",
                        "bad_step_not_reported",
                        format!("h{h}: step with invalid parameters (kind {}) but the constraint reports no error", quirk(i)),
                    ));
                }
                let s = self.slots.get_mut(&h).unwrap();
                if s.failed.is_none() {
                    s.failed = err_now;
                }
                continue;
            }
            for k in 0..GUARD_WORDS {
                if buf[k] != CANARY || buf[buf.len() - 1 - k] != CANARY {
                    return Err(self.viol(
                        "caller_buffer_bounds",
                        "write_outside_caller_buffer",
                        format!("h{h}: canary around the {w}-word destination buffer was overwritten"),
                    ));
                }
            }
            let dest = &buf[GUARD_WORDS..GUARD_WORDS + w];
            let (failed0, stopped0) = before[i];
            let err_now = self.ch(h).and_then(|c| c.has_error());
            if failed0 {
                continue;
            }
            if let Some(e) = err_now {
                // the step failed: the buffer must not contain garbage (all zero)
                if dest.iter().any(|x| *x != 0) {
                    return Err(self.viol(
                        "caller_buffer_contents",
                        "failed_step_left_garbage",
                        format!("h{h}: step failed ({}) but the buffer is not zero-filled", short(&e)),
                    ));
                }
                self.on_constraint_err(h, "par_mask", &e, !stopped0)?;
                let s = self.slots.get_mut(&h).unwrap();
                if s.failed.is_none() {
                    s.failed = Some(e);
                }
                continue;
            }
            // recompute through the single-constraint entry point (unless the step reported a
            // stop: asking again after a stop is an error by contract)
            let stopped_now = self.ch(h).unwrap().is_stopped();
            let again = if stopped_now {
                Ok(StepOut::Stop)
            } else {
                self.ch(h).unwrap().compute_mask(nv)
            };
            let (exp_words, is_stop): (Vec<u32>, bool) = match again {
                Ok(StepOut::Mask(m)) => (m, false),
                Ok(StepOut::Stop) => (vec![], true),
                Ok(StepOut::Splice(_)) => (vec![], false),
                Err(e) => {
                    self.on_constraint_err(h, "cmask", &e.to_string(), true)?;
                    continue;
                }
            };
            let size_class = if w < exact {
                "par_buffer_short"
            } else if w == exact {
                "par_buffer_exact"
            } else {
                "par_buffer_long"
            };
            self.stats.probe(size_class);
            let mut expect = vec![0u32; w];
            if is_stop {
                if eos / 32 < w {
                    expect[eos / 32] |= 1 << (eos % 32);
                }
            } else {
                for k in 0..w.min(exp_words.len()) {
                    expect[k] = exp_words[k];
                }
            }
            if dest != &expect[..] {
                let k = (0..w).find(|k| dest[*k] != expect[*k]).unwrap();
                let sig = if k >= exact {
                    "par_mask_nonzero_beyond_vocab"
                } else {
                    "par_mask_word_differs"
                };
                return Err(self.viol(
                    "caller_buffer_contents",
                    sig,
                    format!(
                        "h{h}: vocab {nv} ({exact} words), destination {w} words: word {k} is {:#010x}, expected {:#010x}",
                        dest[k], expect[k]
                    ),
                ));
            }
            let s = self.slots.get_mut(&h).unwrap();
            s.c_started = true;
            if is_stop {
                s.c_stopped = true;
                s.c_pending_mask = None;
            } else {
                s.c_pending_mask = Some(exp_words.clone());
            }
            self.ev(format!("par_mask h{h} w={w} {:016x}", hash_words(dest)));
        }
        if is_async {
            // the callback fires exactly once
            if counter.load(Ordering::SeqCst) != 1 {
                return Err(self.viol(
                    "par_callback",
                    "par_callback_fired_more_than_once",
                    format!("callback fired {} times", counter.load(Ordering::SeqCst)),
                ));
            }
        }
        // keep the counter alive until all detached work is certainly over
        self.keep_alive.push(counter);
        Ok(())
    }

    /// llg_matcher_compute_ff_tokens with a caller buffer of `len` tokens: "returns the number of
    /// tokens written"; what is written is a prefix of the forced tokens (= what the call returns
    /// with a large buffer), nothing else in the buffer is touched, nothing outside it.
    pub fn op_cff_into(&mut self, h: SlotId, len: usize) -> VResult<()> {
        let (p, failed) = match self.slots.get_mut(&h) {
            Some(Slot {
                h: H::M(MH::C(c)),
                failed,
                ..
            }) => (c.p, failed.is_some()),
            _ => return Ok(()),
        };
        if failed || llg_matcher_is_error(unsafe { &*p }) || unsafe { llg_matcher_is_stopped(&*p) } {
            return Ok(());
        }
        let full = self.mh(h).compute_ff_tokens();
        if llg_matcher_is_error(unsafe { &*p }) {
            return Ok(());
        }
        let mut buf = vec![FILL; len + 2 * GUARD_WORDS];
        for i in 0..GUARD_WORDS {
            buf[i] = CANARY;
            let n = buf.len();
            buf[n - 1 - i] = CANARY;
        }
        let r = unsafe { llg_matcher_compute_ff_tokens(&mut *p, buf.as_mut_ptr().add(GUARD_WORDS), len) };
        for k in 0..GUARD_WORDS {
            if buf[k] != CANARY || buf[buf.len() - 1 - k] != CANARY {
                return Err(self.viol(
                    "caller_buffer_bounds",
                    "write_outside_caller_buffer",
                    format!("h{h}: canary around the {len}-token ff buffer was overwritten"),
                ));
            }
        }
        if llg_matcher_is_error(unsafe { &*p }) {
            return Ok(());
        }
        let want = full.len().min(len);
        if full.len() > len {
            self.stats.probe("ff_buffer_short");
        }
        if r < 0 || r as usize != want {
            return Err(self.viol(
                "c_result",
                "ff_tokens_count",
                format!("h{h}: compute_ff_tokens into {len} tokens returned {r}, forced tokens are {:?} (expected {want} written)", &full[..full.len().min(8)]),
            ));
        }
        let dest = &buf[GUARD_WORDS..GUARD_WORDS + len];
        if dest[..want] != full[..want] || dest[want..].iter().any(|x| *x != FILL) {
            return Err(self.viol(
                "caller_buffer_contents",
                "ff_tokens_buffer",
                format!("h{h}: ff buffer of {len} tokens holds {:?}, forced tokens are {:?}", &dest[..len.min(8)], &full[..full.len().min(8)]),
            ));
        }
        self.ev(format!("cff_into h{h} len={len} r={r}"));
        Ok(())
    }

    /// C17: the tokenizer utility functions follow one output protocol: the return value is the
    /// full length (tokens, or bytes + NUL), at most `len` elements are written, text is
    /// NUL-terminated inside the buffer, nothing else is touched. Reference = the Rust functions
    /// on the tokenizer's own environment.
    pub fn op_ctok_util(&mut self, which: u8, seed: u64, len: usize, via_clone: bool) -> VResult<()> {
        let ctok = match self.ctx.ctok.as_ref() {
            Some(c) => c.clone(),
            None => return Ok(()),
        };
        let mut rng = crate::rng::Rng::new(seed);
        let nv = self.ctx.n_vocab() as u32;
        let n_in = rng.range(0, 9);
        let toks: Vec<u32> = (0..n_in).map(|_| rng.below(nv as usize) as u32).collect();
        let tk_p: *mut LlgTokenizer = if via_clone {
            llg_clone_tokenizer(unsafe { &*ctok.tok })
        } else {
            ctok.tok
        };
        let tk: &LlgTokenizer = unsafe { &*tk_p };
        let res = (|| -> VResult<()> {
            match which % 4 {
                0 | 1 => {
                    // bytes: decoded ordinary tokens; for the marker variant special tokens are
                    // spelled \xFF[id] / \xFF<name> in between
                    let mut bytes: Vec<u8> = vec![];
                    for t in &toks {
                        let w = self.ctx.tok_bytes(*t).to_vec();
                        if w.first() == Some(&0xff) || w.is_empty() {
                            if which % 4 == 1 {
                                if rng.chance(0.5) {
                                    bytes.push(0xff);
                                    bytes.extend_from_slice(format!("[{}]", t).as_bytes());
                                } else {
                                    bytes.extend_from_slice(&w);
                                }
                            }
                        } else {
                            bytes.extend_from_slice(&w);
                        }
                    }
                    let want: Vec<u32> = if which % 4 == 0 {
                        tk.tok_env().tokenize_bytes(&bytes)
                    } else {
                        tk.tok_env().tokenize_bytes_marker(&bytes).0
                    };
                    let mut buf = vec![FILL; len + 2 * GUARD_WORDS];
                    for i in 0..GUARD_WORDS {
                        buf[i] = CANARY;
                        let n = buf.len();
                        buf[n - 1 - i] = CANARY;
                    }
                    let null_out = len == 0 && rng.chance(0.5);
                    let outp = if null_out { std::ptr::null_mut() } else { unsafe { buf.as_mut_ptr().add(GUARD_WORDS) } };
                    let r = unsafe {
                        if which % 4 == 0 {
                            llg_tokenize_bytes(tk, bytes.as_ptr(), bytes.len(), outp, len)
                        } else {
                            llg_tokenize_bytes_marker(tk, bytes.as_ptr(), bytes.len(), outp, len)
                        }
                    };
                    for k in 0..GUARD_WORDS {
                        if buf[k] != CANARY || buf[buf.len() - 1 - k] != CANARY {
                            return Err(self.viol("caller_buffer_bounds", "write_outside_caller_buffer", format!("tokenize util {which}: canary around the {len}-token buffer was overwritten")));
                        }
                    }
                    if r != want.len() {
                        return Err(self.viol("c_result", "tokenize_count", format!("tokenize util {which}: returned {r}, the Rust tokenizer gives {} tokens for {:?}", want.len(), &bytes[..bytes.len().min(24)])));
                    }
                    let w = want.len().min(len);
                    let dest = &buf[GUARD_WORDS..GUARD_WORDS + len];
                    if dest[..w] != want[..w] || dest[w..].iter().any(|x| *x != FILL) {
                        return Err(self.viol("caller_buffer_contents", "tokenize_buffer", format!("tokenize util {which}: buffer of {len} holds {:?}, expected prefix of {:?}", &dest[..len.min(8)], &want[..want.len().min(8)])));
                    }
                    if want.len() > len {
                        self.stats.probe("tokenize_buffer_short");
                    }
                    self.ev(format!("ctok_util {which} len={len} r={r}"));
                }
                _ => {
                    let flags = if which % 4 == 2 { 0 } else { (which as u32 / 4) % 4 };
                    let want: Vec<u8> = if which % 4 == 2 {
                        tk.tok_trie().tokens_dbg(&toks).into_bytes()
                    } else {
                        let s = tk.tok_trie().decode_ext(&toks, flags & LLG_DECODE_INCLUDE_SPECIAL != 0);
                        if flags & LLG_DECODE_VALID_UTF8 != 0 {
                            String::from_utf8_lossy(&s).to_string().into_bytes()
                        } else {
                            s
                        }
                    };
                    const GB: usize = 32;
                    let mut buf = vec![0x5Au8; len + 2 * GB];
                    for i in 0..GB {
                        buf[i] = 0xC7;
                        let n = buf.len();
                        buf[n - 1 - i] = 0xC7;
                    }
                    let null_out = len == 0 && rng.chance(0.5);
                    let outp = if null_out { std::ptr::null_mut() } else { unsafe { buf.as_mut_ptr().add(GB) as *mut std::ffi::c_char } };
                    let r = unsafe {
                        if which % 4 == 2 {
                            llg_stringify_tokens(tk, toks.as_ptr(), toks.len(), outp, len)
                        } else {
                            llg_decode_tokens(tk, toks.as_ptr(), toks.len(), outp, len, flags)
                        }
                    };
                    for k in 0..GB {
                        if buf[k] != 0xC7 || buf[buf.len() - 1 - k] != 0xC7 {
                            return Err(self.viol("caller_buffer_bounds", "write_outside_caller_buffer", format!("text util {which}: canary around the {len}-byte buffer was overwritten")));
                        }
                    }
                    if r != want.len() + 1 {
                        return Err(self.viol("c_result", "text_length", format!("text util {which} flags {flags}: returned {r}, the Rust function gives {} bytes (+ NUL)", want.len())));
                    }
                    if len > 0 {
                        let w = want.len().min(len - 1);
                        let dest = &buf[GB..GB + len];
                        if dest[..w] != want[..w] || dest[w] != 0 || dest[w + 1..].iter().any(|x| *x != 0x5A) {
                            return Err(self.viol("caller_buffer_contents", "text_buffer", format!("text util {which} flags {flags}: buffer of {len} holds {:?}, expected NUL-terminated prefix of {:?}", &dest[..len.min(16)], &want[..want.len().min(16)])));
                        }
                        if want.len() + 1 > len {
                            self.stats.probe("text_buffer_short");
                        }
                    }
                    self.ev(format!("ctok_util {which} len={len} r={r}"));
                }
            }
            Ok(())
        })();
        if via_clone {
            unsafe { llg_free_tokenizer(tk_p) };
        }
        res
    }

    pub fn op_cmask_into(&mut self, h: SlotId, words: usize) -> VResult<()> {
        let nv = self.ctx.n_vocab();
        let exact = nv.div_ceil(32);
        let (p, failed) = match self.slots.get_mut(&h) {
            Some(Slot {
                h: H::M(MH::C(c)),
                failed,
                ..
            }) => (c.p, failed.is_some()),
            _ => return Ok(()),
        };
        let mut buf = vec![FILL; words + 2 * GUARD_WORDS];
        for i in 0..GUARD_WORDS {
            buf[i] = CANARY;
            let n = buf.len();
            buf[n - 1 - i] = CANARY;
        }
        let r = unsafe {
            llg_matcher_compute_mask_into(&mut *p, buf.as_mut_ptr().add(GUARD_WORDS), words * 4)
        };
        for k in 0..GUARD_WORDS {
            if buf[k] != CANARY || buf[buf.len() - 1 - k] != CANARY {
                return Err(self.viol(
                    "caller_buffer_bounds",
                    "write_outside_caller_buffer",
                    format!("h{h}: canary around the {words}-word buffer was overwritten"),
                ));
            }
        }
        let dest = &buf[GUARD_WORDS..GUARD_WORDS + words];
        if failed {
            return Ok(());
        }
        if words != exact {
            self.stats.fault("mis_sized_buffer");
            if r == 0 {
                return Err(self.viol(
                    "caller_buffer_bounds",
                    "wrong_size_accepted",
                    format!("h{h}: compute_mask_into accepted {words} words, mask has {exact}"),
                ));
            }
            if dest.iter().any(|x| *x != FILL) {
                return Err(self.viol(
                    "caller_buffer_bounds",
                    "wrong_size_wrote_buffer",
                    format!("h{h}: compute_mask_into rejected the size but wrote to the buffer"),
                ));
            }
            self.ev(format!("cmask_into h{h} wrong-size rejected"));
            return Ok(());
        }
        if r != 0 {
            // the matcher may be in error state (then everything fails) - handled by mirrors
            let is_err = llg_matcher_is_error(unsafe { &*p });
            if !is_err && self.fault_free() {
                return Err(self.viol(
                    "legal_call_rejected",
                    "rejected:cmask_into",
                    format!("h{h}: compute_mask_into with the exact size failed"),
                ));
            }
            return Ok(());
        }
        // equals the mask obtained through compute_mask + get_mask
        let m2 = match &mut self.slots.get_mut(&h).unwrap().h {
            H::M(m) => m.compute_mask_or_eos(nv),
            _ => unreachable!(),
        };
        if let Ok(m2) = m2 {
            if dest != &m2[..] {
                let (t, ina) = mask_diff(dest, &m2).unwrap();
                return Err(self.viol(
                    "caller_buffer_contents",
                    "mask_into_differs",
                    format!("h{h}: token {t}: into={ina} get_mask={}", !ina),
                ));
            }
        }
        self.ev(format!("cmask_into h{h} {:016x}", hash_words(dest)));
        Ok(())
    }

    // ------------------------------------------------------------- stop controller (M-stop)

    pub fn op_stop_new(
        &mut self,
        h: SlotId,
        stop_tokens: &[u32],
        stop_strings: &[String],
        stop_regex: &Option<String>,
        via_c: bool,
    ) -> VResult<()> {
        let env = self.ctx.world.tok_env.clone();
        let mut sh = StopH {
            rust: None,
            c: std::ptr::null_mut(),
            out: vec![],
            chunks: vec![],
            toks: vec![],
            stopped: false,
            spec_tokens: stop_tokens.to_vec(),
            spec_strings: stop_strings.to_vec(),
            spec_regex: stop_regex.clone(),
            after_stop_nonempty: false,
            ctok: None,
        };
        if via_c {
            // the C constructor has no stop_strings: they go into the regex (alternation of literals)
            let mut alts: Vec<String> = stop_strings.iter().map(|s| regex_escape(s)).collect();
            if let Some(r) = stop_regex {
                alts.push(r.clone());
            }
            let rx = if alts.is_empty() {
                None
            } else {
                Some(CString::new(format!("({})", alts.join("|"))).unwrap())
            };
            let ctok = self.ctx.ctok.as_ref().unwrap().clone();
            let mut err = vec![0u8; 256];
            let p = unsafe {
                llg_new_stop_controller(
                    &*ctok.tok,
                    stop_tokens.as_ptr(),
                    stop_tokens.len(),
                    rx.as_ref().map(|c| c.as_ptr()).unwrap_or(std::ptr::null()),
                    err.as_mut_ptr() as *mut _,
                    err.len(),
                )
            };
            if p.is_null() {
                return Err(self.viol(
                    "harness",
                    "harness",
                    format!("llg_new_stop_controller failed: {}", String::from_utf8_lossy(&err)),
                ));
            }
            sh.c = p;
            sh.ctok = Some(ctok);
        } else {
            match llguidance::StopController::new(
                env,
                stop_tokens.to_vec(),
                stop_regex.clone(),
                stop_strings.to_vec(),
            ) {
                Ok(s) => sh.rust = Some(s),
                Err(e) => {
                    return Err(self.viol(
                        "harness",
                        "harness",
                        format!("StopController::new failed: {e}"),
                    ))
                }
            }
        }
        let slot = Slot {
            h: H::S(sh),
            hist: vec![],
            failed: None,
            lexer_group: 0,
            last_mask: None,
            alt: None,
            c_started: false,
            c_pending_mask: None,
            c_stopped: false,
            c_ff: false,
            ops_since_fault: 0,
            rejected_commit: false,
            rejected_partial: false,
        };
        self.slots.insert(h, slot);
        self.ev(format!("stop_new h{h} c={via_c}"));
        Ok(())
    }

    pub fn op_stop_clone(&mut self, src: SlotId, dst: SlotId) -> VResult<()> {
        let s = match self.slots.get_mut(&src) {
            Some(Slot { h: H::S(s), .. }) => s,
            _ => return Ok(()),
        };
        let ns = StopH {
            rust: s.rust.clone(),
            c: if s.c.is_null() {
                std::ptr::null_mut()
            } else {
                llg_clone_stop_controller(unsafe { &*s.c })
            },
            out: s.out.clone(),
            chunks: s.chunks.clone(),
            toks: s.toks.clone(),
            stopped: s.stopped,
            spec_tokens: s.spec_tokens.clone(),
            spec_strings: s.spec_strings.clone(),
            spec_regex: s.spec_regex.clone(),
            after_stop_nonempty: s.after_stop_nonempty,
            ctok: s.ctok.clone(),
        };
        let slot = Slot {
            h: H::S(ns),
            hist: vec![],
            failed: None,
            lexer_group: 0,
            last_mask: None,
            alt: None,
            c_started: false,
            c_pending_mask: None,
            c_stopped: false,
            c_ff: false,
            ops_since_fault: 0,
            rejected_commit: false,
            rejected_partial: false,
        };
        self.slots.insert(dst, slot);
        self.stats.probe("stop_controller_cloned");
        self.ev(format!("stop_clone h{src}->h{dst}"));
        Ok(())
    }

    pub fn op_stop_commit(&mut self, h: SlotId, tok: u32) -> VResult<()> {
        let s = match self.slots.get_mut(&h) {
            Some(Slot { h: H::S(s), .. }) => s,
            _ => return Ok(()),
        };
        let was_stopped = s.stopped;
        let (chunk, stopped) = if let Some(r) = s.rust.as_mut() {
            let c = r.commit_token(tok);
            (c, r.is_stopped())
        } else {
            let mut len = 0usize;
            let mut st = false;
            let p = llg_stop_commit_token(unsafe { &mut *s.c }, tok, &mut len, &mut st);
            let bytes = unsafe { std::slice::from_raw_parts(p as *const u8, len) };
            (String::from_utf8_lossy(bytes).to_string(), st)
        };
        if was_stopped {
            if !chunk.is_empty() {
                s.after_stop_nonempty = true;
            }
            if !stopped {
                return Err(self.viol(
                    "stop_controller",
                    "stop_controller_unstopped",
                    format!("h{h}: controller was stopped and is not any more"),
                ));
            }
        } else {
            s.toks.push(tok);
        }
        s.out.extend_from_slice(chunk.as_bytes());
        s.chunks.push(chunk.clone());
        s.stopped = stopped;
        let l = chunk.len();
        self.ev(format!("stop_commit h{h} {tok} -> {l} stopped={stopped}"));
        Ok(())
    }

    pub fn chk_stop(&mut self, h: SlotId) -> VResult<()> {
        let (toks, out, stopped, spec_tokens, spec_strings, has_rx, after_nonempty, chunks) =
            match self.slots.get(&h) {
                Some(Slot { h: H::S(s), .. }) => (
                    s.toks.clone(),
                    s.out.clone(),
                    s.stopped,
                    s.spec_tokens.clone(),
                    s.spec_strings.clone(),
                    s.spec_regex.is_some(),
                    s.after_stop_nonempty,
                    s.chunks.clone(),
                ),
                _ => return self.skip_c("no_slot"),
            };
        self.stats.checks += 1;
        if after_nonempty {
            return Err(self.viol(
                "stop_controller",
                "output_after_stop",
                format!("h{h}: controller returned text after it had stopped"),
            ));
        }
        // M-stop: decoded text up to the first stop token / earliest-ending stop-string occurrence.
        // Special tokens contribute their name and reset matching (segments).
        let mut segs: Vec<Vec<u8>> = vec![vec![]];
        let mut text: Vec<u8> = vec![];
        let mut stop_tok_hit = false;
        for &t in &toks {
            if spec_tokens.contains(&t) {
                stop_tok_hit = true;
                break;
            }
            let b = self.ctx.tok_bytes(t);
            if !b.is_empty() && b[0] == 0xff {
                text.extend_from_slice(&b[1..]);
                segs.push(vec![]);
                // marks a boundary: remember absolute offset by storing text length in a parallel way
                segs.last_mut().unwrap().clear();
                self.stats.probe("stop_special_token_in_stream");
            } else {
                text.extend_from_slice(b);
            }
        }
        // recompute with offsets: find earliest-ending occurrence of any stop string inside a segment
        let mut expected_end: Option<(usize, Vec<usize>)> = None; // (end offset, possible starts)
        {
            let mut off = 0usize;
            let mut seg_start = 0usize;
            let mut positions: Vec<(usize, usize)> = vec![]; // segments as [start,end) in text
            for &t in &toks {
                if spec_tokens.contains(&t) {
                    break;
                }
                let b = self.ctx.tok_bytes(t);
                if !b.is_empty() && b[0] == 0xff {
                    positions.push((seg_start, off));
                    off += b.len() - 1;
                    seg_start = off;
                } else {
                    off += b.len();
                }
            }
            positions.push((seg_start, off));
            'outer: for (s0, e0) in positions {
                let seg = &text[s0..e0];
                for end in 1..=seg.len() {
                    let mut starts = vec![];
                    for ss in &spec_strings {
                        let sb = ss.as_bytes();
                        if !sb.is_empty() && end >= sb.len() && &seg[end - sb.len()..end] == sb {
                            starts.push(s0 + end - sb.len());
                        }
                    }
                    if !starts.is_empty() {
                        expected_end = Some((s0 + end, starts));
                        break 'outer;
                    }
                }
            }
        }
        let text_valid = std::str::from_utf8(&text).is_ok();
        if has_rx {
            // structural clauses only (no regex semantics oracle): prefix, nothing after stop
            let lossy = String::from_utf8_lossy(&text).to_string();
            if text_valid && !lossy.as_bytes().starts_with(&out) {
                return Err(self.viol(
                    "stop_controller",
                    "stop_output_not_prefix",
                    format!("h{h}: output {:?} is not a prefix of the text {:?}", String::from_utf8_lossy(&out), lossy),
                ));
            }
            self.ev(format!("chk_stop h{h} rx out={}", out.len()));
            return Ok(());
        }
        if !text_valid {
            // Broken characters in the stream (byte-fallback tokens do this). What the returned
            // chunks look like then depends on where the lossy decoding cuts, so the output is not
            // judged; but stop strings are valid UTF-8, matching restarts at the byte that broke
            // the character, and so an occurrence is found exactly when the bytes contain one.
            self.stats.probe("stop_text_invalid_utf8");
            match (&expected_end, stop_tok_hit) {
                (Some((end, _)), _) if !stopped => {
                    return Err(self.viol(
                        "stop_controller",
                        "stop_string_missed",
                        format!("h{h}: a stop string ends at byte {end} of {:?} (text with a broken character) but the controller is not stopped", String::from_utf8_lossy(&text)),
                    ));
                }
                (None, true) if !stopped => {
                    return Err(self.viol(
                        "stop_controller",
                        "stop_token_missed",
                        format!("h{h}: stop token committed but not stopped"),
                    ));
                }
                (None, false) if stopped => {
                    return Err(self.viol(
                        "stop_controller",
                        "stopped_without_stop",
                        format!("h{h}: stopped but text {:?} has no stop token/string", String::from_utf8_lossy(&text)),
                    ));
                }
                _ => {}
            }
            self.ev(format!("chk_stop h{h} invalid-utf8 stopped={stopped}"));
            return Ok(());
        }
        for c in &chunks {
            if c.contains('\u{fffd}') && !String::from_utf8_lossy(&text).contains('\u{fffd}') {
                return Err(self.viol(
                    "stop_controller",
                    "stop_split_utf8_char",
                    format!("h{h}: a returned chunk {:?} contains a broken character", c),
                ));
            }
        }
        match (&expected_end, stop_tok_hit) {
            (Some((end, starts)), _) => {
                if !stopped {
                    return Err(self.viol(
                        "stop_controller",
                        "stop_string_missed",
                        format!("h{h}: a stop string ends at byte {end} of {:?} but the controller is not stopped", String::from_utf8_lossy(&text)),
                    ));
                }
                if !starts.iter().any(|st| out == text[..*st]) {
                    return Err(self.viol(
                        "stop_controller",
                        "stop_output_wrong",
                        format!(
                            "h{h}: text {:?}, stop string starts at {:?}, output {:?}",
                            String::from_utf8_lossy(&text),
                            starts,
                            String::from_utf8_lossy(&out)
                        ),
                    ));
                }
                self.stats.probe("stop_string_hit");
                if toks.len() > 1 {
                    self.stats.probe("stop_string_across_tokens");
                }
            }
            (None, true) => {
                if !stopped {
                    return Err(self.viol(
                        "stop_controller",
                        "stop_token_missed",
                        format!("h{h}: stop token committed but not stopped"),
                    ));
                }
                if out != text {
                    return Err(self.viol(
                        "stop_controller",
                        "stop_output_wrong",
                        format!(
                            "h{h}: text before stop token {:?}, output {:?}",
                            String::from_utf8_lossy(&text),
                            String::from_utf8_lossy(&out)
                        ),
                    ));
                }
                self.stats.probe("stop_token_hit");
            }
            (None, false) => {
                if stopped {
                    return Err(self.viol(
                        "stop_controller",
                        "stopped_without_stop",
                        format!("h{h}: stopped but text {:?} has no stop token/string", String::from_utf8_lossy(&text)),
                    ));
                }
                if !text.starts_with(&out) {
                    return Err(self.viol(
                        "stop_controller",
                        "stop_output_not_prefix",
                        format!("h{h}: output {:?} is not a prefix of {:?}", String::from_utf8_lossy(&out), String::from_utf8_lossy(&text)),
                    ));
                }
                let maxs = spec_strings.iter().map(|s| s.len()).max().unwrap_or(0);
                let withheld = text.len() - out.len();
                if withheld > maxs + 3 {
                    return Err(self.viol(
                        "stop_controller",
                        "stop_withholds_too_much",
                        format!("h{h}: {withheld} bytes withheld, longest stop string {maxs}"),
                    ));
                }
                if withheld > 0 {
                    self.stats.probe("stop_text_withheld");
                }
            }
        }
        self.ev(format!("chk_stop h{h} out={} stopped={stopped}", out.len()));
        Ok(())
    }
}

impl<'a> Exec<'a> {
    /// C entry points fed hostile text. Oracles: nothing panics across the boundary (a panic in an
    /// extern "C" function aborts the process - caught by the worker pool), error messages are
    /// NUL-terminated inside the caller's buffer, results are "error" or a handle that works.
    pub fn op_hostile_c(&mut self, what: &str, tag: &str, data: &str, buf_len: usize) -> VResult<()> {
        let ctok = match self.ctx.ctok.as_ref() {
            Some(c) => c.clone(),
            None => return Ok(()),
        };
        let nv = self.ctx.n_vocab();
        let init = ctok.init(&self.ctx.world, false);
        let ctag = match CString::new(tag) {
            Ok(c) => c,
            Err(_) => return Ok(()),
        };
        let cdata = match CString::new(data) {
            Ok(c) => c,
            Err(_) => return Ok(()),
        };
        // message buffer between canaries
        let mut buf = vec![0x7eu8; buf_len + 16];
        let msg_ptr = unsafe { buf.as_mut_ptr().add(8) } as *mut std::ffi::c_char;
        let check_buf = |me: &Exec, buf: &Vec<u8>, used: bool| -> VResult<()> {
            if buf[..8].iter().any(|b| *b != 0x7e) || buf[8 + buf_len..].iter().any(|b| *b != 0x7e) {
                return Err(me.viol(
                    "caller_buffer_bounds",
                    "message_buffer_overrun",
                    format!("{what}: wrote outside the {buf_len}-byte message buffer"),
                ));
            }
            if used && buf_len > 0 && !buf[8..8 + buf_len].contains(&0) {
                return Err(me.viol(
                    "caller_buffer_bounds",
                    "message_not_terminated",
                    format!("{what}: message in the {buf_len}-byte buffer is not NUL-terminated"),
                ));
            }
            Ok(())
        };
        self.stats.fault("hostile_c_input");
        match what {
            "validate" => {
                let rc = unsafe { llg_validate_grammar(&init, ctag.as_ptr(), cdata.as_ptr(), msg_ptr, buf_len) };
                check_buf(self, &buf, true)?;
                if !(-1..=1).contains(&rc) {
                    return Err(self.viol("c_result", "validate_rc", format!("llg_validate_grammar returned {rc}")));
                }
                self.ev(format!("hostile validate rc={rc}"));
            }
            "matcher" => {
                let p = unsafe { llg_new_matcher(&init, ctag.as_ptr(), cdata.as_ptr()) };
                if p.is_null() {
                    return Err(self.viol("c_result", "new_matcher_null", "llg_new_matcher returned null".into()));
                }
                let mut m = MH::C(CMatcher {
                    p,
                    n_vocab: nv,
                    ctok: ctok.clone(),
                });
                let err = m.is_error();
                if err {
                    if let Some(e) = m.get_error() {
                        if is_overflow_panic(&e) {
                            return Err(self.viol(
                                "no_arithmetic_overflow",
                                "overflow:build",
                                format!("llg_new_matcher: internal arithmetic overflow: {}", short(&e)),
                            ));
                        }
                    }
                }
                if !err {
                    // a handle that was built must work: a few honest steps
                    for _ in 0..4 {
                        if m.is_stopped() {
                            break;
                        }
                        match m.compute_mask(nv) {
                            Ok(mask) => {
                                let b = set_bits(&mask);
                                if b.is_empty() {
                                    break;
                                }
                                if let Err(e) = m.consume_tokens(&[b[b.len() / 2]]) {
                                    let c = classify_err(&e.to_string());
                                    if c == ErrClass::Misuse || c == ErrClass::Other {
                                        return Err(self.viol(
                                            "mask_token_rejected",
                                            "commit_rejected_mask_token",
                                            format!("hostile grammar accepted at construction; mask-allowed token rejected: {}", short(&e.to_string())),
                                        ));
                                    }
                                    break;
                                }
                            }
                            Err(e) => {
                                let c = classify_err(&e.to_string());
                                if c == ErrClass::Panic {
                                    return Err(self.viol(
                                        "no_internal_panic",
                                        "panic:mask",
                                        format!("mask on h0 (hostile grammar accepted at construction) failed with an internal panic: {}", short(&e.to_string())),
                                    ));
                                }
                                break;
                            }
                        }
                    }
                } else {
                    self.stats.probe("hostile_input_rejected_with_error");
                }
                self.ev(format!("hostile matcher err={err}"));
            }
            "constraint" => {
                let p = llg_new_constraint_any(&init, ctag.as_ptr(), cdata.as_ptr());
                if p.is_null() {
                    return Err(self.viol("c_result", "new_constraint_null", "llg_new_constraint_any returned null".into()));
                }
                let mut c = CConstraint {
                    p,
                    n_vocab: nv,
                    ctok: ctok.clone(),
                    last_mask_temp: 0.0,
                };
                let e = c.err();
                if e.is_some() {
                    self.stats.probe("hostile_input_rejected_with_error");
                }
                self.ev(format!("hostile constraint err={}", e.is_some()));
            }
            "stop" => {
                let toks = [self.ctx.world.eos()];
                let p = unsafe {
                    llg_new_stop_controller(&*ctok.tok, toks.as_ptr(), 1, cdata.as_ptr(), msg_ptr, buf_len)
                };
                check_buf(self, &buf, p.is_null())?;
                if !p.is_null() {
                    let mut len = 0usize;
                    let mut st = false;
                    for t in [b'a' as u32, b'b' as u32, 0x80, b'c' as u32] {
                        let _ = llg_stop_commit_token(unsafe { &mut *p }, t, &mut len, &mut st);
                    }
                    unsafe { llg_free_stop_controller(p) };
                } else {
                    self.stats.probe("hostile_input_rejected_with_error");
                }
                self.ev(format!("hostile stop null={}", p.is_null()));
            }
            "tokenizer_json" => {
                let init = LlgTokenizerInit {
                    vocab_size: (data.len() % 600) as u32,
                    tok_eos: (data.len() % 7) as u32,
                    token_lens: std::ptr::null(),
                    token_bytes: std::ptr::null(),
                    tokenizer_json: cdata.as_ptr(),
                    tokenize_assumes_string: false,
                    tokenize_fn: None,
                    use_approximate_greedy_tokenize_fn: true,
                    tokenize_user_data: std::ptr::null(),
                    slices: std::ptr::null(),
                };
                let p = unsafe { llg_new_tokenizer(&init, msg_ptr, buf_len) };
                check_buf(self, &buf, p.is_null())?;
                if !p.is_null() {
                    unsafe { llg_free_tokenizer(p) };
                } else {
                    self.stats.probe("hostile_input_rejected_with_error");
                }
                self.ev(format!("hostile tokenizer_json null={}", p.is_null()));
            }
            _ => {}
        }
        Ok(())
    }
}

pub fn regex_escape(s: &str) -> String {
    let mut r = String::new();
    for c in s.chars() {
        if "\\.+*?()|[]{}^$#&-~".contains(c) {
            r.push('\\');
        }
        r.push(c);
    }
    r
}
