//! Scenario generators: one family (or a few sub-families) per claimed property.
//! A scenario depends only on (seed, property, tier, index).

use crate::corpus::{self, Entry, GKind};
use crate::rng::{fnv, mix, Rng};
use crate::scenario::*;
use crate::sched::{ScheduleSpec, Strategy};
use crate::world::*;

#[derive(Clone, Copy, PartialEq, Eq, Debug)]
pub enum Tier {
    Quick,
    Thorough,
}

pub fn run_seed(seed: u64, prop: &str, tier: Tier, index: u64) -> u64 {
    let t = match tier {
        Tier::Quick => 1,
        Tier::Thorough => 2,
    };
    mix(mix(seed, fnv(prop)), mix(t, index))
}

/// number of runs per property and tier (fixed: the batch never depends on speed or worker count)
pub fn run_count(prop: &str, tier: Tier) -> u64 {
    let (q, t) = match prop {
        "C01" => (5000, 30000),
        "C02" => (12000, 120000),
        "C03" => (14000, 100000),
        "C10" => (9000, 90000),
        "C11" => (16000, 160000),
        "C12" => (16000, 160000),
        "C13" => (12000, 120000),
        "C14" => (4000, 20000),
        "C17" => (10000, 100000),
        "C18" => (14000, 140000),
        "C20" => (16000, 160000),
        "SELFTEST" => (64, 256),
        _ => (100, 1000),
    };
    match tier {
        Tier::Quick => q,
        Tier::Thorough => t,
    }
}

pub struct WorldOpts {
    pub want_tags: Vec<&'static str>,
    pub avoid_tags: Vec<&'static str>,
    pub prefer_tags: Vec<&'static str>,
    pub canonical: Option<bool>,
    pub vocab_kinds: Vec<&'static str>,
    pub tight_limits: bool,
    pub slices_unsliced: bool,
    pub allow_random_cfg: bool,
    pub swallowing_terminals: bool,
}

impl Default for WorldOpts {
    fn default() -> Self {
        WorldOpts {
            want_tags: vec![],
            avoid_tags: vec!["heavy"],
            prefer_tags: vec![],
            canonical: None,
            vocab_kinds: vec!["byte", "synth", "synth", "bpe"],
            tight_limits: false,
            slices_unsliced: false,
            allow_random_cfg: true,
            swallowing_terminals: false,
        }
    }
}

/// Random small JSON schema from the fragment C03 names: numeric ranges (inclusive / exclusive bounds
/// sitting on or next to multiples), multipleOf, string patterns with length bounds, enums, arrays with
/// item bounds, optional and required properties, anyOf. Many combinations are unsatisfiable; those the
/// compiler rejects are not used (the caller builds every candidate), what it accepts has to be free of
/// dead ends.
pub fn random_json_schema(rng: &mut Rng) -> String {
    fn num(rng: &mut Rng, integer: bool) -> String {
        let mut parts = vec![format!("\"type\":\"{}\"", if integer { "integer" } else { "number" })];
        let m: i64 = *rng.pick(&[0i64, 0, 2, 3, 4, 5, 6, 7, 10]);
        // bounds on / next to a multiple, narrow ranges
        let base = if m > 0 { m * (rng.below(9) as i64 - 3) } else { rng.below(60) as i64 - 20 };
        let lo = base + *rng.pick(&[-1i64, 0, 0, 1]);
        let hi = lo + *rng.pick(&[0i64, 1, 2, 3, 4, 6, 9, 25, 200]);
        let frac = |rng: &mut Rng, v: i64| {
            if !integer && rng.chance(0.3) {
                format!("{}.{}", v, rng.pick(&["5", "25", "0", "125"]))
            } else {
                v.to_string()
            }
        };
        match rng.below(4) {
            0 => {}
            1 => parts.push(format!("\"minimum\":{}", frac(rng, lo))),
            _ => parts.push(format!(
                "\"{}\":{}",
                if rng.chance(0.5) { "minimum" } else { "exclusiveMinimum" },
                frac(rng, lo)
            )),
        }
        match rng.below(4) {
            0 => {}
            1 => parts.push(format!("\"maximum\":{}", frac(rng, hi))),
            _ => parts.push(format!(
                "\"{}\":{}",
                if rng.chance(0.5) { "maximum" } else { "exclusiveMaximum" },
                frac(rng, hi)
            )),
        }
        if m > 0 {
            if !integer && rng.chance(0.3) {
                parts.push(format!("\"multipleOf\":{}", rng.pick(&["0.5", "0.25", "2.5", "0.1"])));
            } else {
                parts.push(format!("\"multipleOf\":{m}"));
            }
        }
        format!("{{{}}}", parts.join(","))
    }
    fn string(rng: &mut Rng) -> String {
        let mut parts = vec!["\"type\":\"string\"".to_string()];
        if rng.chance(0.6) {
            let p = *rng.pick(&[
                "^[ab]{1,3}$", "^[a-z]+$", "^x?y{2}$", "^(ab)*$", "^[0-9]{2,4}$", "^a[bc]*d$", "^(foo|ba+r)$", "^[A-Z][a-z]{0,2}$", "^.{2,5}$", "^[^x]*x$",
            ]);
            parts.push(format!("\"pattern\":{:?}", p));
        } else if rng.chance(0.2) {
            parts.push(format!("\"format\":\"{}\"", rng.pick(&["date", "time", "uuid", "ipv4"])));
        }
        if rng.chance(0.5) {
            parts.push(format!("\"minLength\":{}", rng.below(7)));
        }
        if rng.chance(0.5) {
            parts.push(format!("\"maxLength\":{}", rng.below(9)));
        }
        format!("{{{}}}", parts.join(","))
    }
    fn value(rng: &mut Rng, depth: usize, nd: usize) -> String {
        if nd > 0 && rng.chance(0.25) {
            return format!("{{\"$ref\":\"#/$defs/d{}\"}}", rng.below(nd));
        }
        match rng.below(if depth >= 2 { 7 } else { 10 }) {
            0..=2 => num(rng, true),
            3 => num(rng, false),
            4..=5 => string(rng),
            6 => (*rng.pick(&[
                "{\"enum\":[\"a\",\"ab\",1,null]}",
                "{\"const\":\"k\"}",
                "{\"type\":\"boolean\"}",
                "{\"enum\":[10,100,1000]}",
            ]))
            .to_string(),
            7 => {
                let lo = rng.below(3);
                let hi = lo + rng.below(3);
                format!("{{\"type\":\"array\",\"items\":{},\"minItems\":{lo},\"maxItems\":{hi}}}", value(rng, depth + 1, nd))
            }
            8 => format!("{{\"anyOf\":[{},{}]}}", value(rng, depth + 1, nd), value(rng, depth + 1, nd)),
            _ => object(rng, depth + 1, nd),
        }
    }
    fn object(rng: &mut Rng, depth: usize, nd: usize) -> String {
        let n = rng.range(1, 3);
        let names = ["a", "b", "c", "code", "n"];
        let mut props = vec![];
        let mut req = vec![];
        for i in 0..n {
            let name = names[(i + rng.below(2)) % names.len()];
            if props.iter().any(|p: &String| p.starts_with(&format!("\"{name}\":"))) {
                continue;
            }
            props.push(format!("\"{name}\":{}", value(rng, depth, nd)));
            if rng.chance(0.6) {
                req.push(format!("\"{name}\""));
            }
        }
        format!(
            "{{\"type\":\"object\",\"properties\":{{{}}},\"required\":[{}],\"additionalProperties\":false}}",
            props.join(","),
            req.join(",")
        )
    }
    // definitions referenced through $ref (some of them unsatisfiable: narrow numeric ranges,
    // minLength above maxLength - the compiler has to reject the schema then, wherever the
    // reference sits)
    let nd = if rng.chance(0.3) { rng.range(1, 3) } else { 0 };
    let defs: Vec<String> = (0..nd).map(|i| format!("\"d{i}\":{}", value(rng, 2, 0))).collect();
    let mut body = object(rng, 0, nd);
    if nd > 0 {
        body = format!("{{\"$defs\":{{{}}},{}", defs.join(","), &body[1..]);
    }
    if rng.chance(0.4) {
        // compact output: no flexible whitespace to hide in
        format!(
            "{{\"x-guidance\":{{\"whitespace_flexible\":false,\"item_separator\":\",\",\"key_separator\":\":\"}},{}",
            &body[1..]
        )
    } else {
        body
    }
}

/// Random parametric Lark grammar (rules parameterised by a 64-bit value, docs/parametric.md).
/// `hostile == false`: syntactically valid, every bit index / range / value inside its documented
/// domain but biased to the edges of it (bit 63, ranges ending at 64, all-ones values).
/// `hostile == true`: now and then an index, range or value just outside (64, 65, 2^64, empty or
/// reversed ranges), unknown functions, deep condition nesting.
/// Valid mode: every rule has an unguarded empty alternative and an unguarded literal + self
/// reference, so every state can both stop and go on; the guarded alternatives exercise the
/// parameter logic. Hostile mode: parameters can strand.
pub fn random_param_grammar(rng: &mut Rng, hostile: bool) -> String {
    fn idx(rng: &mut Rng, hostile: bool) -> String {
        if hostile && rng.chance(0.12) {
            return rng
                .pick(&["64", "64", "64", "65", "127", "255", "4294967295", "4294967296", "18446744073709551615", "18446744073709551616", "0x3f", "-1"])
                .to_string();
        }
        match rng.below(10) {
            0..=5 => rng.below(6).to_string(),
            6 => rng.below(64).to_string(),
            7 => "63".into(),
            8 => rng.pick(&["31", "32", "33", "62"]).to_string(),
            _ => rng.below(12).to_string(),
        }
    }
    fn range(rng: &mut Rng, hostile: bool) -> String {
        if rng.chance(0.2) {
            return "_".into();
        }
        if hostile && rng.chance(0.12) {
            return rng
                .pick(&["[0:65]", "[64:64]", "[64:65]", "[3:3]", "[5:2]", "[63:63]", "[0:0]", "[0:18446744073709551616]", "[:3]", "[1:]", "[1,3]", "[-1:3]"])
                .to_string();
        }
        let (x, y) = match rng.below(8) {
            0 => (0, 64),
            1 => (63, 64),
            2 => (rng.below(63), 64),
            3 => (0, 63),
            4 => (32, 64),
            _ => {
                let x = rng.below(10);
                (x, x + 1 + rng.below(5))
            }
        };
        format!("[{x}:{y}]")
    }
    fn value(rng: &mut Rng, hostile: bool) -> String {
        if hostile && rng.chance(0.12) {
            return rng
                .pick(&["18446744073709551616", "0x10000000000000000", "0x", "0xg", "99999999999999999999999", "-1", "1e3", "0x-1"])
                .to_string();
        }
        match rng.below(10) {
            0..=4 => rng.below(8).to_string(),
            5 => format!("0x{:x}", rng.below(256)),
            6 => "0xffffffffffffffff".into(),
            7 => "18446744073709551615".into(),
            8 => "0x8000000000000000".into(),
            _ => rng.below(40).to_string(),
        }
    }
    fn expr(rng: &mut Rng, hostile: bool) -> String {
        if hostile && rng.chance(0.05) {
            return rng.pick(&["shl(1)", "set_bit()", "set_bit(1, 2)", "incr(3)", "bit_or(_)", "set_bit", "_::_", ""]).to_string();
        }
        match rng.below(12) {
            0..=3 => format!("set_bit({})", idx(rng, hostile)),
            4 => format!("clear_bit({})", idx(rng, hostile)),
            5 => format!("bit_and({})", value(rng, hostile)),
            6 => format!("bit_or({})", value(rng, hostile)),
            7..=8 => format!("incr({})", range(rng, hostile)),
            9 => format!("decr({})", range(rng, hostile)),
            // (a constant inside a rule body is accepted by the front end but trips an internal
            // assertion of the grammar optimiser - a reported construction error; hostile mode only)
            10 if hostile => value(rng, hostile),
            _ => "_".into(),
        }
    }
    fn cond(rng: &mut Rng, hostile: bool, depth: usize) -> String {
        if hostile && rng.chance(0.04) {
            return rng.pick(&["maybe()", "and(true)", "not()", "eq(_)", "lt(3, _)", "bit_set", "or(true, true, true)"]).to_string();
        }
        let max = if depth >= (if hostile { 6 } else { 2 }) { 14 } else { 18 };
        match rng.below(max) {
            0..=2 => format!("bit_clear({})", idx(rng, hostile)),
            3 => format!("bit_set({})", idx(rng, hostile)),
            4 => format!("is_ones({})", range(rng, hostile)),
            5 => format!("is_zeros({})", range(rng, hostile)),
            6..=9 => {
                let f = *rng.pick(&["eq", "ne", "lt", "le", "gt", "ge"]);
                format!("{f}({}, {})", range(rng, hostile), value(rng, hostile))
            }
            10..=12 => {
                let f = *rng.pick(&["bit_count_eq", "bit_count_ne", "bit_count_lt", "bit_count_le", "bit_count_gt", "bit_count_ge"]);
                format!("{f}({}, {})", range(rng, hostile), idx(rng, hostile))
            }
            // (docs/parametric.md lists `true()` as well; the parser only takes `true`)
            13 => (*rng.pick(if hostile { &["true", "true()"][..] } else { &["true"][..] })).to_string(),
            14..=15 => format!("and({}, {})", cond(rng, hostile, depth + 1), cond(rng, hostile, depth + 1)),
            16 => format!("or({}, {})", cond(rng, hostile, depth + 1), cond(rng, hostile, depth + 1)),
            _ => format!("not({})", cond(rng, hostile, depth + 1)),
        }
    }
    let n_rules = rng.range(1, 3);
    let lits: Vec<&str> = if hostile {
        vec!["a", "b", "c", "d", "ab", "ba", ",", " ", "x", "0", "1"]
    } else {
        vec!["a", "b", "c", "d", ",", " ", "x", "0", "1"]
    };
    let mut out = String::new();
    let init = if rng.chance(0.6) { "0x0".to_string() } else { value(rng, hostile) };
    out.push_str(&format!("start: {}r0::{}{}\n", if rng.chance(0.2) { "\"<\" " } else { "" }, init, if rng.chance(0.2) { " \">\"" } else { "" }));
    for r in 0..n_rules {
        let n_alt = rng.range(2, 6);
        let mut alts: Vec<String> = vec![];
        // the way out: an empty alternative (hostile mode: usually guarded, so parameters can strand)
        let guard = if hostile && rng.chance(0.7) { format!(" %if {}", cond(rng, hostile, 0)) } else { String::new() };
        alts.push(format!("\"\"{guard}"));
        if !hostile {
            // ... and one way on, so that no state is a dead end or the end of the language
            alts.push(format!("\".\" r{r}::_"));
        }
        let mut used: Vec<&str> = vec![];
        for _ in 0..n_alt {
            let mut a = String::new();
            if rng.chance(0.9) {
                let l = *rng.pick(&lits);
                // valid mode: one alternative per first literal (two alternatives that start alike make
                // the grammar ambiguous: item counts explode and single runs take minutes)
                if !hostile && used.contains(&l) {
                    continue;
                }
                used.push(l);
                a.push_str(&format!("{:?} ", l));
            } else {
                if !hostile && used.contains(&"/rx/") {
                    continue;
                }
                used.push("/rx/");
                a.push_str("/[e-g]{1,2}/ ");
            }
            if rng.chance(0.85) {
                let target = rng.below(n_rules);
                let _ = r;
                a.push_str(&format!("r{target}::{}", expr(rng, hostile)));
            }
            if rng.chance(0.75) {
                a.push_str(&format!(" %if {}", cond(rng, hostile, 0)));
            }
            alts.push(a);
        }
        out.push_str(&format!("r{r}::_ : {}\n", alts.join("\n    | ")));
    }
    out
}

/// productive-by-construction random CFG: every non-terminal's first alternative is terminal-only,
/// every terminal is a non-empty literal or class.
pub fn random_cfg(rng: &mut Rng, swallowing: bool) -> String {
    let n_nt = rng.range(2, 5);
    let lits = [
        "a", "b", "c", "ab", "ba", "(", ")", "[", "]", ",", ";", "x", "xy", "0", "1", " ", "=", "if", "fi",
    ];
    // self-delimiting terminals mostly; "swallowing" ones (a following identical lexeme can never
    // start: bytes are then forced for ever, see F4) stay in with a low weight
    let terms = if swallowing {
        vec!["/[a-c]+/", "/[0-9]{1,3}/", "/x*y/", "/[a-z][0-9]?/", "/(ab)+/"]
    } else {
        vec!["/[0-9]{1,3}/", "/x*y/", "/[a-z][0-9]?/", "/\\+\\+?/", "/[A-C]{2}/"]
    };
    let n_t = rng.range(1, 3);
    let mut out = String::from("start: n0\n");
    for i in 0..n_nt {
        let mut alts: Vec<String> = vec![];
        // terminating alternative
        let mut a = vec![];
        for _ in 0..rng.range(1, 2) {
            if rng.chance(0.3) {
                a.push(format!("T{}", rng.below(n_t)));
            } else {
                a.push(format!("\"{}\"", rng.pick(&lits)));
            }
        }
        alts.push(a.join(" "));
        for _ in 0..rng.range(1, 3) {
            let mut a = vec![];
            let me_sym = format!("n{}", i);
            for _ in 0..rng.range(1, 4) {
                match rng.below(10) {
                    0..=3 => {
                        // at most one self reference and two non-terminals per alternative:
                        // "n0: n0 n0 x" (or the same through mutual recursion) has Catalan-many
                        // parses and single operations on long histories then cost minutes
                        let mut nt = format!("n{}", rng.below(n_nt));
                        let n_nts = a.iter().filter(|x: &&String| x.starts_with('n') || x.starts_with("(n")).count();
                        if (nt == me_sym && a.iter().any(|x: &String| x.contains(&me_sym))) || n_nts >= 2 {
                            nt = format!("\"{}\"", rng.pick(&lits));
                        }
                        a.push(nt)
                    }
                    4..=7 => a.push(format!("\"{}\"", rng.pick(&lits))),
                    8 => a.push(format!("T{}", rng.below(n_t))),
                    _ => {
                        let mut k = rng.below(n_nt);
                        if format!("n{}", k) == me_sym {
                            k = (k + 1) % n_nt;
                        }
                        let inner = format!("n{}", k);
                        let suf = *rng.pick(&["?", "*", "+", "{1,3}"]);
                        a.push(format!("({} \"{}\"){}", inner, rng.pick(&lits), suf));
                    }
                }
            }
            // an alternative made of non-terminals only that mentions its own left-hand side
            // (n0: n0 n0, n0: n0) is exponentially ambiguous: single operations then cost minutes
            let me = format!("n{}", i);
            let only_nt = a.iter().all(|x| x.starts_with('n') && !x.contains('"'));
            if only_nt && a.iter().any(|x| *x == me) {
                a.push(format!("\"{}\"", rng.pick(&lits)));
            }
            let alt = a.join(" ");
            if !alts.contains(&alt) {
                alts.push(alt);
            }
        }
        if rng.chance(0.15) {
            alts.push(String::new()); // empty production
        }
        out.push_str(&format!("n{}: {}\n", i, alts.join(" | ")));
    }
    for i in 0..n_t {
        out.push_str(&format!("T{}: {}\n", i, rng.pick(&terms)));
    }
    if rng.chance(0.25) {
        out.push_str("%ignore /[ \\t]+/\n");
    }
    out
}

pub fn pick_entry<'a>(rng: &mut Rng, o: &WorldOpts) -> &'a Entry {
    let cands: Vec<&Entry> = corpus::CORPUS
        .iter()
        .filter(|e| o.want_tags.iter().all(|t| e.has(t)) && !o.avoid_tags.iter().any(|t| e.has(t)))
        // stop= / suffix= lexemes (no rollback, hidden bytes): only where asked for
        .filter(|e| !e.has("stopl") || o.want_tags.contains(&"stopl"))
        // allow_invalid_utf8 grammars (special tokens are not kept apart from text there): C10 only
        .filter(|e| !e.has("bytesmode") || o.want_tags.contains(&"bytesmode"))
        .filter(|e| !e.has("temp") || o.want_tags.contains(&"temp"))
        .collect();
    assert!(!cands.is_empty());
    if !o.prefer_tags.is_empty() && rng.chance(0.7) {
        let p: Vec<&&Entry> = cands
            .iter()
            .filter(|e| o.prefer_tags.iter().any(|t| e.has(t)))
            .collect();
        if !p.is_empty() {
            return p[rng.below(p.len())];
        }
    }
    cands[rng.below(cands.len())]
}

pub fn tight_limits(rng: &mut Rng) -> LimitsSpec {
    let d = LimitsSpec::default();
    let mut l = d.clone();
    // each limit independently: default, or log-uniform from very tight to default
    if rng.chance(0.5) {
        l.step_lexer_fuel = rng.log_uniform(50, d.step_lexer_fuel);
    }
    if rng.chance(0.4) {
        l.step_max_items = rng.log_uniform(20, d.step_max_items as u64) as usize;
    }
    if rng.chance(0.3) {
        l.max_items_in_row = rng.log_uniform(5, d.max_items_in_row as u64) as usize;
    }
    if rng.chance(0.3) {
        l.max_lexer_states = rng.log_uniform(10, d.max_lexer_states as u64) as usize;
    }
    if rng.chance(0.2) {
        l.initial_lexer_fuel = rng.log_uniform(500, d.initial_lexer_fuel);
    }
    if rng.chance(0.2) {
        l.max_grammar_size = rng.log_uniform(50, d.max_grammar_size as u64) as usize;
    }
    if rng.chance(0.3) {
        l.precompute_large_lexemes = false;
    }
    l
}

pub fn gen_world(rng: &mut Rng, o: &WorldOpts) -> (WorldSpec, bool) {
    let use_rand = o.allow_random_cfg && o.want_tags.iter().all(|t| *t == "prod") && rng.chance(0.2);
    let use_param = !use_rand && o.allow_random_cfg && o.want_tags.is_empty() && rng.chance(0.04);
    let param_text = if use_param {
        (0..4)
            .map(|_| random_param_grammar(rng, false))
            .find(|t| grammar_constructs(GKind::Lark, t))
    } else {
        None
    };
    let use_json = !use_rand && o.allow_random_cfg && o.want_tags.iter().all(|t| *t == "prod") && rng.chance(0.12);
    let json_text = if use_json {
        (0..6)
            .map(|_| random_json_schema(rng))
            .find(|t| grammar_constructs(GKind::Json, t))
    } else {
        None
    };
    let (gid, gkind, gtext0, _tokref) = if use_rand {
        ("rand_cfg".to_string(), GKind::Lark, random_cfg(rng, o.swallowing_terminals), false)
    } else if let Some(t) = json_text {
        ("rand_json".to_string(), GKind::Json, t, false)
    } else if let Some(t) = param_text {
        ("rand_param".to_string(), GKind::Lark, t, false)
    } else {
        let e = pick_entry(rng, o);
        (e.id.to_string(), e.kind, e.text.to_string(), e.has("tokref"))
    };
    let vk = *rng.pick(&o.vocab_kinds);
    let vocab = match vk {
        "byte" => byte_vocab(),
        "bpe" => bpe_vocab(rng),
        _ => {
            let mut srng = rng.fork("samples");
            let samples = sample_texts(gkind, &gtext0, &mut srng, 6, 80);
            synth_vocab(rng, &samples)
        }
    };
    let mut vocab = vocab;
    if _tokref && rng.chance(0.3) {
        // special tokens at ids around 1000 (their \xFF[id] spelling gains a digit there)
        let base = 997 + rng.below(4);
        pad_vocab(&mut vocab, base);
    }
    if !_tokref && rng.chance(0.15) {
        // multi-EOS vocabulary: <|pad|> is a second end-of-sequence token
        let base = vocab.words.len() - SPECIALS.len();
        vocab.eos_extra = vec![(base + 2) as u32];
    }
    let canonical = o.canonical.unwrap_or_else(|| rng.chance(0.4));
    let slices = if o.slices_unsliced {
        Some(vec![])
    } else {
        match rng.below(10) {
            0..=3 => None,
            4..=6 => Some(vec![]),
            _ => Some(random_slices(rng)),
        }
    };
    let limits = if o.tight_limits {
        tight_limits(rng)
    } else {
        LimitsSpec::default()
    };
    let grammar_text = instantiate_grammar_text(&gtext0, &vocab);
    let productive = use_rand
        || gid == "rand_json"
        || corpus::by_id(&gid)
            .map(|e| e.has("prod"))
            .unwrap_or(false);
    (
        WorldSpec {
            grammar_id: gid,
            grammar_kind: gkind,
            grammar_text,
            vocab,
            canonical,
            slices,
            limits,
            fresh_rebuild: rng.chance(0.15),
            max_tokens: None,
            prompt: None,
        },
        productive,
    )
}

pub fn random_slices(rng: &mut Rng) -> Vec<String> {
    if rng.chance(0.15) {
        // disjoint character classes as siblings, some of them with a nested (shorter) slice
        let classes = ["[a-z]", "[A-Z]", "[0-9]", "[ \\t\\n]"];
        let mut v: Vec<String> = vec![];
        for c in classes {
            if rng.chance(0.8) {
                let outer = *rng.pick(&["+", "{1,8}", "{1,12}"]);
                v.push(format!("{c}{outer}"));
                if rng.chance(0.5) {
                    v.push(format!("{c}{}", rng.pick(&["{1,3}", "{1,2}", "{2,4}"])));
                }
            }
        }
        if v.len() >= 2 {
            rng.shuffle(&mut v);
            return v;
        }
    }
    // mostly short lists; some with many siblings and nested slices
    let n = if rng.chance(0.3) { rng.range(3, 7) } else { rng.range(1, 4) };
    let mut v: Vec<String> = vec![];
    for _ in 0..n {
        let s = rng.pick(SLICE_POOL).to_string();
        if !v.contains(&s) {
            v.push(s);
        }
    }
    v
}

struct G<'r> {
    rng: &'r mut Rng,
    ops: Vec<Op>,
}

impl<'r> G<'r> {
    fn honest(&mut self) -> Pick {
        let r = self.rng.next_u64();
        match self.rng.below(10) {
            0..=4 => Pick::MaskNoEos(r),
            5 => Pick::Mask(r),
            6..=7 => Pick::Longest(r),
            _ => Pick::High(r),
        }
    }
    fn any_pick(&mut self) -> Pick {
        let r = self.rng.next_u64();
        match self.rng.below(10) {
            0..=4 => Pick::Mask(r),
            5..=6 => Pick::Outside(r),
            7 => {
                if r % 2 == 0 {
                    Pick::Eos
                } else {
                    Pick::EosAlt(r >> 1)
                }
            }
            8 => Pick::Longest(r),
            _ => Pick::Tok((r % 300) as u32),
        }
    }
    /// read-only queries that touch hidden state
    fn perturb(&mut self, h: SlotId, n: usize) {
        for _ in 0..n {
            let op = match self.rng.below(8) {
                0 => Op::Mask { h, fuel_at: None },
                1 => {
                    let k = self.rng.range(1, 4);
                    let picks = (0..k).map(|_| self.any_pick()).collect();
                    Op::Validate { h, picks }
                }
                2 => Op::IsAccepting { h },
                3 => Op::FfBytes { h },
                4 => Op::FfTokens { h },
                5 => Op::Invalidate { h },
                6 => Op::Mask { h, fuel_at: None },
                _ => Op::MaskOrEos { h },
            };
            self.ops.push(op);
        }
    }
    fn fuel(&mut self, p: f64) -> Option<u32> {
        if self.rng.chance(p) {
            Some(self.rng.below(40) as u32)
        } else {
            None
        }
    }
}

fn base(prop: &str, family: &str, seed: u64, index: u64, world: WorldSpec, productive: bool) -> Scenario {
    Scenario {
        family: family.into(),
        property: prop.into(),
        seed,
        index,
        world,
        alts: vec![],
        setup: vec![],
        tasks: vec![],
        threads: false,
        schedule: None,
        mirrors: vec![],
        fault_injecting: false,
        productive,
        c_tok_v2: false,
        auto_restart: !matches!(prop, "C18" | "C20"),
        budget_oracle: false,
    }
}

/// C14 thorough: systematic single-preemption enumeration. A small 2-task scenario (base) is run
/// once per decision point with exactly one forced preemption there; 1024 consecutive indices
/// share a base, points beyond the number of decisions degenerate to the serial schedule.
pub const ENUM_POINTS: u64 = 1024;

fn gen_c14_enum(seed: u64, index: u64) -> Scenario {
    let base_idx = index / ENUM_POINTS;
    let point = index % ENUM_POINTS;
    let mut rng = Rng::new(run_seed(seed, "C14-enum", Tier::Thorough, base_idx));
    let mut o = WorldOpts::default();
    o.vocab_kinds = vec!["byte", "synth"];
    o.allow_random_cfg = false;
    let (world, productive) = gen_world(&mut rng, &o);
    let mut sc = base("C14", "preempt_enum", seed, index, world, productive);
    sc.threads = true;
    sc.schedule = Some(ScheduleSpec {
        strategy: Strategy::Serial,
        seed: 0,
        sticky_period: 0,
        pct_depth: 0,
        explicit: None,
        preempt_at: vec![point],
    });
    let mut g = G { rng: &mut rng, ops: vec![] };
    g.ops.push(Op::New {
        h: 0,
        kind: HKind::Matcher,
        alt: None,
    });
    for _ in 0..g.rng.below(3) {
        let p = g.honest();
        g.ops.push(Op::Commit {
            h: 0,
            pick: p,
            fuel_at: None,
        });
    }
    g.ops.push(Op::Clone {
        src: 0,
        dst: 1,
        deep: false,
    });
    sc.setup = std::mem::take(&mut g.ops);
    for t in 0..2 {
        // cold lexer: the first mask of each clone grows the shared automaton (long critical section)
        g.ops.push(Op::Mask { h: t, fuel_at: None });
        let p = g.honest();
        g.ops.push(Op::Commit {
            h: t,
            pick: p,
            fuel_at: None,
        });
        g.ops.push(Op::ChkFresh { h: t });
        sc.tasks.push(std::mem::take(&mut g.ops));
    }
    sc
}

pub fn generate(prop: &str, seed: u64, tier: Tier, index: u64) -> Scenario {
    if prop == "C14" && tier == Tier::Thorough && index % 4 == 3 {
        return gen_c14_enum(seed, index / 4);
    }
    let rs = run_seed(seed, prop, tier, index);
    // development aid (never set by ./check): draw until the scenario belongs to one sub-family
    if let Ok(want) = std::env::var("VERIF_SUBFAMILY") {
        for k in 0..2000u64 {
            let mut rng = Rng::new(rs ^ k.wrapping_mul(0x9E37_79B9_7F4A_7C15));
            let sc = generate_with(prop, &mut rng, seed, index, tier == Tier::Thorough);
            if sc.family == want {
                return sc;
            }
        }
    }
    let mut rng = Rng::new(rs);
    let long = tier == Tier::Thorough;
    generate_with(prop, &mut rng, seed, index, long)
}

fn generate_with(prop: &str, rng: &mut Rng, seed: u64, index: u64, long: bool) -> Scenario {
    let mut rng = rng;
    match prop {
        "C01" => gen_c01(&mut rng, seed, index, long),
        "C02" => gen_c02(&mut rng, seed, index, long),
        "C03" => gen_c03(&mut rng, seed, index, long),
        "C10" => gen_c10(&mut rng, seed, index, long),
        "C11" => gen_c11(&mut rng, seed, index, long),
        "C12" => gen_c12(&mut rng, seed, index, long),
        "C13" => gen_c13(&mut rng, seed, index, long),
        "C14" => gen_c14(&mut rng, seed, index, long),
        "C17" => gen_c17(&mut rng, seed, index, long),
        "C18" => gen_c18(&mut rng, seed, index, long),
        "C20" => gen_c20(&mut rng, seed, index, long),
        _ => gen_c11(&mut rng, seed, index, long),
    }
}

// ---------------------------------------------------------------------------------------- C01

fn gen_c01(rng: &mut Rng, seed: u64, index: u64, long: bool) -> Scenario {
    let faulty = rng.chance(0.2);
    let mut o = WorldOpts::default();
    o.tight_limits = faulty;
    if faulty {
        o.avoid_tags = vec![];
    }
    if rng.chance(0.08) {
        // lazy lexeme alive next to a greedy one that contains a slice (slicer guard)
        o.want_tags = vec!["lazyg"];
        o.allow_random_cfg = false;
    }
    // full per-token commit is expensive: keep vocabularies moderate here
    let (mut world, productive) = gen_world(rng, &o);
    if faulty && rng.chance(0.3) {
        // only the per-mask item budget is tight (and small enough to be hit exactly): a mask that
        // is returned must still be the full mask
        world.limits = LimitsSpec::default();
        world.limits.step_max_items = rng.log_uniform(3, 400) as usize;
    }
    let nv = world.vocab.words.len();
    let mut sc = base("C01", "accept", seed, index, world, productive);
    sc.fault_injecting = faulty;
    let steps = if long { rng.range(30, 60) } else { rng.range(12, 30) };
    let sample = if nv <= 400 { 0 } else { 96 };
    let mut g = G { rng, ops: vec![] };
    g.ops.push(Op::New {
        h: 0,
        kind: HKind::Matcher,
        alt: None,
    });
    let mut have_sib = false;
    for i in 0..steps {
        if !have_sib && g.rng.chance(0.08) {
            let deep = g.rng.chance(0.4);
            g.ops.push(Op::Clone { src: 0, dst: 1, deep });
            have_sib = true;
        }
        let n = g.rng.below(3);
        g.perturb(0, n);
        if have_sib && g.rng.chance(0.4) {
            // a sibling works on the (possibly shared) lexer in between
            let p = g.honest();
            let f = if faulty { g.fuel(0.1) } else { None };
            g.ops.push(Op::Commit {
                h: 1,
                pick: p,
                fuel_at: f,
            });
            g.ops.push(Op::Mask { h: 1, fuel_at: None });
        }
        if faulty && g.rng.chance(0.15) {
            let f = g.fuel(1.0);
            g.ops.push(Op::Mask { h: 0, fuel_at: f });
        }
        let s = g.rng.next_u64();
        g.ops.push(Op::ChkAccept {
            h: 0,
            sample,
            seed: s,
        });
        if g.rng.chance(0.35) {
            let k = g.rng.range(2, 6);
            let picks = (0..k).map(|_| g.any_pick()).collect();
            g.ops.push(Op::ChkSeq { h: 0, picks });
        }
        // advance
        match g.rng.below(20) {
            0 => {
                let k = g.rng.range(1, 3);
                g.ops.push(Op::Rollback { h: 0, k });
            }
            1 => {
                let k = g.rng.range(2, 4);
                let picks = (0..k).map(|_| g.honest()).collect();
                g.ops.push(Op::CommitMany { h: 0, picks });
            }
            2 => g.ops.push(Op::ConsumeFf { h: 0 }),
            3 if i > 4 => g.ops.push(Op::Reset { h: 0 }),
            _ => {
                let p = g.honest();
                let f = if faulty { g.fuel(0.08) } else { None };
                g.ops.push(Op::Commit {
                    h: 0,
                    pick: p,
                    fuel_at: f,
                });
            }
        }
    }
    sc.tasks = vec![g.ops];
    sc
}

// ---------------------------------------------------------------------------------------- C02

fn gen_c02(rng: &mut Rng, seed: u64, index: u64, long: bool) -> Scenario {
    let mut o = WorldOpts::default();
    o.avoid_tags = vec!["heavy", "tokref"];
    o.canonical = Some(false);
    o.vocab_kinds = vec!["synth", "synth", "bpe"];
    let (world, productive) = gen_world(rng, &o);
    let mut sc = base("C02", "bytes", seed, index, world, productive);
    let steps = if long { rng.range(25, 60) } else { rng.range(10, 28) };
    let mut g = G { rng, ops: vec![] };
    g.ops.push(Op::New {
        h: 0,
        kind: HKind::Matcher,
        alt: None,
    });
    g.ops.push(Op::ChkByte { h: 0 });
    for _ in 0..steps {
        let n = g.rng.below(2);
        g.perturb(0, n);
        let p = match g.rng.below(10) {
            0..=4 => Pick::Longest(g.rng.next_u64()),
            5..=6 => Pick::High(g.rng.next_u64()),
            7 => Pick::Mask(g.rng.next_u64()),
            _ => Pick::MaskNoEos(g.rng.next_u64()),
        };
        if g.rng.chance(0.1) {
            let k = g.rng.range(2, 3);
            let picks = (0..k).map(|_| g.honest()).collect();
            g.ops.push(Op::CommitMany { h: 0, picks });
        } else {
            g.ops.push(Op::Commit {
                h: 0,
                pick: p,
                fuel_at: None,
            });
        }
        g.ops.push(Op::ChkByte { h: 0 });
        if g.rng.chance(0.3) {
            let s = g.rng.next_u64();
            g.ops.push(Op::ChkResplit { h: 0, seed: s });
        }
        if g.rng.chance(0.06) {
            let k = g.rng.range(1, 3);
            g.ops.push(Op::Rollback { h: 0, k });
            g.ops.push(Op::ChkByte { h: 0 });
        }
    }
    sc.tasks = vec![g.ops];
    sc
}

// ---------------------------------------------------------------------------------------- C03

fn gen_c03(rng: &mut Rng, seed: u64, index: u64, long: bool) -> Scenario {
    let mut o = WorldOpts::default();
    o.want_tags = vec!["prod"];
    o.avoid_tags = vec!["tokref"];
    o.canonical = Some(false);
    let (mut world, productive) = gen_world(rng, &o);
    // item budgets: a mask computation cut short by step_max_items / max_items_in_row has to end in the
    // documented limit stop, never in an empty mask / 'no extension' (small values: the budget has
    // to run out in the middle of ordinary steps, at every possible item count)
    let items_limit = rng.chance(0.25);
    if items_limit {
        if rng.chance(0.8) {
            world.limits.step_max_items = rng.log_uniform(2, 600) as usize;
        } else {
            world.limits.max_items_in_row = rng.log_uniform(2, 100) as usize;
        }
    }
    let mut sc = base("C03", if items_limit { "deadend_items_limit" } else { "deadend" }, seed, index, world, productive);
    sc.fault_injecting = items_limit;
    let steps = if long { rng.range(30, 70) } else { rng.range(12, 32) };
    let mut g = G { rng, ops: vec![] };
    g.ops.push(Op::New {
        h: 0,
        kind: HKind::Matcher,
        alt: None,
    });
    for i in 0..steps {
        if g.rng.chance(0.25) {
            // read-only queries that change how the next mask is computed (pending forced bytes ...)
            let n = g.rng.range(1, 2);
            g.perturb(0, n);
        }
        g.ops.push(Op::Mask { h: 0, fuel_at: None });
        if i % 8 == 3 {
            g.ops.push(Op::ChkDead {
                h: 0,
                depth: if long { 8 } else { 5 },
                nodes: if long { 1500 } else { 250 },
            });
        }
        let p = match g.rng.below(10) {
            0..=3 => Pick::Longest(g.rng.next_u64()),
            4..=6 => Pick::High(g.rng.next_u64()),
            _ => Pick::MaskNoEos(g.rng.next_u64()),
        };
        g.ops.push(Op::Commit {
            h: 0,
            pick: p,
            fuel_at: None,
        });
        if g.rng.chance(0.04) {
            let k = g.rng.range(1, 2);
            g.ops.push(Op::Rollback { h: 0, k });
        }
    }
    g.ops.push(Op::Mask { h: 0, fuel_at: None });
    let s = g.rng.next_u64();
    g.ops.push(Op::ChkComplete {
        h: 0,
        attempts: 8,
        steps: 80,
        seed: s,
    });
    sc.tasks = vec![g.ops];
    sc
}

// ---------------------------------------------------------------------------------------- C10

fn gen_c10(rng: &mut Rng, seed: u64, index: u64, long: bool) -> Scenario {
    let mut o = WorldOpts::default();
    o.prefer_tags = vec!["str"];
    o.canonical = Some(false);
    o.vocab_kinds = vec!["synth", "bpe", "bpe"];
    o.slices_unsliced = true;
    if rng.chance(0.06) {
        // grammars in byte mode (allow_invalid_utf8): length bounds count bytes there
        o.want_tags = vec!["bytesmode"];
        o.vocab_kinds = vec!["synth"];
    }
    let (world, productive) = gen_world(rng, &o);
    let mut sc = base("C10", "slices", seed, index, world, productive);
    sc.alts = vec![None, Some(random_slices(rng))];
    if rng.chance(0.3) {
        sc.alts.push(Some(random_slices(rng)));
    }
    let n_eng = 1 + sc.alts.len();
    sc.mirrors = vec![(0..n_eng).collect()];
    let steps = if long { rng.range(30, 80) } else { rng.range(12, 36) };
    let mut g = G { rng, ops: vec![] };
    // other grammars are driven on the same (shared) sliced factories first, and now and then later
    let warm = |g: &mut G, vocab: &VocabSpec, n_eng: usize| {
        let e = pick_entry(
            g.rng,
            &WorldOpts {
                avoid_tags: vec!["heavy", "tokref"],
                prefer_tags: vec!["str"],
                ..WorldOpts::default()
            },
        );
        let text = instantiate_grammar_text(e.text, vocab);
        for i in 1..n_eng {
            let s = g.rng.next_u64();
            g.ops.push(Op::Warm {
                alt: Some(i - 1),
                kind: e.kind,
                text: text.clone(),
                steps: g.rng.range(2, 10),
                seed: s,
            });
        }
    };
    let vocab = sc.world.vocab.clone();
    if g.rng.chance(0.6) {
        warm(&mut g, &vocab, n_eng);
    }
    g.ops.push(Op::New {
        h: 0,
        kind: HKind::Matcher,
        alt: None,
    });
    for i in 1..n_eng {
        g.ops.push(Op::New {
            h: i,
            kind: HKind::Matcher,
            alt: Some(i - 1),
        });
    }
    g.ops.push(Op::ChkMirror { h: 0 });
    for _ in 0..steps {
        // history perturbation on the sliced engines only
        for i in 1..n_eng {
            let n = g.rng.below(2);
            g.perturb(i, n);
        }
        // long tokens keep us inside strings where slices apply / partly apply
        let p = match g.rng.below(10) {
            0..=4 => Pick::Longest(g.rng.next_u64()),
            5..=7 => Pick::MaskNoEos(g.rng.next_u64()),
            _ => Pick::High(g.rng.next_u64()),
        };
        g.ops.push(Op::Commit {
            h: 0,
            pick: p,
            fuel_at: None,
        });
        g.ops.push(Op::ChkMirror { h: 0 });
        if g.rng.chance(0.05) {
            let k = g.rng.range(1, 3);
            g.ops.push(Op::Rollback { h: 0, k });
            g.ops.push(Op::ChkMirror { h: 0 });
        }
        if g.rng.chance(0.04) {
            warm(&mut g, &vocab, n_eng);
            g.ops.push(Op::ChkMirror { h: 0 });
        }
    }
    sc.tasks = vec![g.ops];
    sc
}

// ---------------------------------------------------------------------------------------- C11

/// C11 at the sampling-loop level: a constraint driven step by step must answer like a fresh
/// constraint that replayed the same tokens (start_without_prompt + force_tokens) and like a fresh
/// matcher; computing the mask twice in a row changes nothing
fn gen_c11_constraint(rng: &mut Rng, seed: u64, index: u64, long: bool) -> Scenario {
    let mut o = WorldOpts::default();
    o.avoid_tags = vec!["heavy", "tokref"];
    o.prefer_tags = vec!["stopc", "ff"];
    if rng.chance(0.1) {
        o.want_tags = vec!["temp"];
    }
    let (world, productive) = gen_world(rng, &o);
    let ff = world.canonical && rng.chance(0.5);
    let mut sc = base("C11", "cache_constraint", seed, index, world, productive);
    let steps = if long { rng.range(20, 50) } else { rng.range(8, 24) };
    let mut g = G { rng, ops: vec![] };
    g.ops.push(Op::New {
        h: 0,
        kind: HKind::Constraint { ff },
        alt: None,
    });
    for _ in 0..steps {
        let p = match g.rng.below(10) {
            0..=1 => Pick::Mask(g.rng.next_u64()),
            _ => g.honest(),
        };
        g.ops.push(Op::CMaskOnly { h: 0 });
        g.ops.push(Op::ChkText { h: 0 });
        if g.rng.chance(0.2) {
            // asking twice is allowed and must not change the answer
            g.ops.push(Op::CMaskOnly { h: 0 });
            g.ops.push(Op::ChkText { h: 0 });
        }
        g.ops.push(Op::CCommitOnly { h: 0, pick: p });
    }
    g.ops.push(Op::CMaskOnly { h: 0 });
    g.ops.push(Op::ChkText { h: 0 });
    sc.tasks = vec![g.ops];
    sc
}

/// Engines started with a prompt (TokenParser::process_prompt heals the prompt's tail: those bytes
/// become a prefix the first tokens have to spell again): read-only queries interleaved with the
/// commits that walk through the healed prefix must leave no trace (fresh engine = same prompt,
/// same tokens, no queries).
fn gen_c11_prompt(rng: &mut Rng, seed: u64, index: u64, long: bool) -> Scenario {
    let mut o = WorldOpts::default();
    o.avoid_tags = vec!["heavy", "tokref"];
    o.canonical = Some(true);
    o.vocab_kinds = vec!["synth", "synth", "bpe"];
    let (mut world, productive) = gen_world(rng, &o);
    // a prompt whose tail is a token that longer tokens extend: a few multi-byte vocabulary words
    let multi: Vec<&String> = world.vocab.words.iter().filter(|w| w.len() >= 4 && !w.starts_with("ff") && !w.starts_with("f5")).collect();
    let mut prompt = String::new();
    if !multi.is_empty() {
        for _ in 0..rng.range(1, 3) {
            prompt.push_str(multi[rng.below(multi.len())]);
        }
        if rng.chance(0.5) {
            // end inside a word: the last token is a proper prefix of a vocabulary word
            let w = multi[rng.below(multi.len())];
            let k = 2 * rng.range(1, (w.len() / 2).max(1));
            prompt.push_str(&w[..k.min(w.len())]);
        }
    } else {
        prompt.push_str("6162");
    }
    world.prompt = Some(prompt);
    let mut sc = base("C11", "cache_prompt", seed, index, world, productive);
    // no rollbacks here: tokens that spell the healed prefix are not in the parser's byte log, so
    // rolling them back is refused ("rollback: too many bytes") - prompt + rollback is outside C11
    sc.auto_restart = false;
    let steps = if long { rng.range(20, 50) } else { rng.range(8, 24) };
    let mut g = G { rng, ops: vec![] };
    g.ops.push(Op::New {
        h: 0,
        kind: HKind::Matcher,
        alt: None,
    });
    for _ in 0..steps {
        if g.rng.chance(0.6) {
            let n = g.rng.range(1, 3);
            g.perturb(0, n);
        }
        if g.rng.chance(0.3) {
            g.ops.push(Op::ChkFresh { h: 0 });
        }
        let p = g.honest();
        g.ops.push(Op::Commit {
            h: 0,
            pick: p,
            fuel_at: None,
        });
        if g.rng.chance(0.5) {
            g.ops.push(Op::ChkFresh { h: 0 });
        }
    }
    g.ops.push(Op::ChkFresh { h: 0 });
    sc.tasks = vec![g.ops];
    sc
}

/// Lexemes with stop= / suffix= (hidden bytes, no rollback): read-only queries between the commits
/// must leave no trace here either (fresh engine = same tokens, no queries). Byte vocabulary: every
/// stop string is one token, so no commit needs backtracking (which a Matcher refuses).
fn gen_c11_stop_lexeme(rng: &mut Rng, seed: u64, index: u64, long: bool) -> Scenario {
    let mut o = WorldOpts::default();
    o.want_tags = vec!["stopl"];
    o.allow_random_cfg = false;
    o.vocab_kinds = vec!["byte"];
    let (world, _) = gen_world(rng, &o);
    let mut sc = base("C11", "cache_stop_lexeme", seed, index, world, false);
    sc.auto_restart = false;
    let steps = if long { rng.range(20, 50) } else { rng.range(8, 24) };
    let mut g = G { rng, ops: vec![] };
    g.ops.push(Op::New {
        h: 0,
        kind: HKind::Matcher,
        alt: None,
    });
    for _ in 0..steps {
        if g.rng.chance(0.6) {
            let n = g.rng.range(1, 3);
            g.perturb(0, n);
        }
        let p = g.honest();
        g.ops.push(Op::Commit {
            h: 0,
            pick: p,
            fuel_at: None,
        });
        if g.rng.chance(0.5) {
            g.ops.push(Op::ChkFresh { h: 0 });
        }
    }
    g.ops.push(Op::ChkFresh { h: 0 });
    sc.tasks = vec![g.ops];
    sc
}

fn gen_c11(rng: &mut Rng, seed: u64, index: u64, long: bool) -> Scenario {
    if rng.chance(0.15) {
        return gen_c11_constraint(rng, seed, index, long);
    }
    if rng.chance(0.06) {
        return gen_c11_stop_lexeme(rng, seed, index, long);
    }
    if rng.chance(0.08) {
        return gen_c11_prompt(rng, seed, index, long);
    }
    let faulty = rng.chance(0.15);
    let mut o = WorldOpts::default();
    o.tight_limits = faulty;
    let (world, productive) = gen_world(rng, &o);
    let mut sc = base("C11", "cache", seed, index, world, productive);
    sc.fault_injecting = faulty;
    let steps = if long { rng.range(30, 70) } else { rng.range(12, 30) };
    let mut g = G { rng, ops: vec![] };
    g.ops.push(Op::New {
        h: 0,
        kind: HKind::Matcher,
        alt: None,
    });
    let sib = g.rng.chance(0.3);
    if sib {
        g.ops.push(Op::Clone {
            src: 0,
            dst: 1,
            deep: false,
        });
    }
    g.ops.push(Op::ChkFresh { h: 0 });
    for _ in 0..steps {
        match g.rng.below(20) {
            // the collision pattern: mask, rollback, commit a different continuation, mask
            0..=3 => {
                g.ops.push(Op::Mask { h: 0, fuel_at: None });
                let k = g.rng.range(1, 3);
                g.ops.push(Op::Rollback { h: 0, k });
                for _ in 0..k {
                    let p = g.honest();
                    g.ops.push(Op::Commit {
                        h: 0,
                        pick: p,
                        fuel_at: None,
                    });
                }
                g.ops.push(Op::ChkFresh { h: 0 });
            }
            4 => {
                // query, roll back, then re-commit the same number of tokens *blind* (resolved on a
                // scratch clone, no query on the handle in between): per-length memos must not survive
                g.ops.push(if g.rng.chance(0.5) {
                    Op::FfBytes { h: 0 }
                } else {
                    Op::Mask { h: 0, fuel_at: None }
                });
                let k = g.rng.range(1, 3);
                g.ops.push(Op::Rollback { h: 0, k });
                let picks = (0..k).map(|_| g.honest()).collect();
                g.ops.push(Op::CommitMany { h: 0, picks });
                g.ops.push(Op::ChkFresh { h: 0 });
            }
            5..=8 => {
                let n = g.rng.range(1, 4);
                g.perturb(0, n);
                g.ops.push(Op::ChkFresh { h: 0 });
            }
            9 if sib => {
                let p = g.honest();
                g.ops.push(Op::Commit {
                    h: 1,
                    pick: p,
                    fuel_at: None,
                });
                g.ops.push(Op::Mask { h: 1, fuel_at: None });
                g.ops.push(Op::ChkFresh { h: 0 });
            }
            10 => {
                g.ops.push(Op::ConsumeFf { h: 0 });
                g.ops.push(Op::ChkFresh { h: 0 });
            }
            _ => {
                let p = g.honest();
                let f = if faulty { g.fuel(0.1) } else { None };
                g.ops.push(Op::Commit {
                    h: 0,
                    pick: p,
                    fuel_at: f,
                });
                if faulty && g.rng.chance(0.2) {
                    let f = g.fuel(1.0);
                    g.ops.push(Op::Mask { h: 0, fuel_at: f });
                }
                g.ops.push(Op::ChkFresh { h: 0 });
            }
        }
    }
    sc.tasks = vec![g.ops];
    sc
}

// ---------------------------------------------------------------------------------------- C12

fn gen_c12(rng: &mut Rng, seed: u64, index: u64, long: bool) -> Scenario {
    let mut o = WorldOpts::default();
    o.prefer_tags = vec!["stopc", "ff"];
    if rng.chance(0.1) {
        // captures are an observable too: whatever the rolled-back tokens captured has to go
        o.want_tags = vec!["capt"];
        o.allow_random_cfg = false;
    }
    let (mut world, productive) = gen_world(rng, &o);
    if rng.chance(0.1) {
        // a total token budget (TopLevelGrammar.max_tokens): rollback refunds exactly what it takes back
        world.max_tokens = Some(rng.range(3, 30));
    }
    let mut sc = base("C12", "rollback", seed, index, world, productive);
    let bursts = if long { rng.range(6, 14) } else { rng.range(3, 8) };
    let mut g = G { rng, ops: vec![] };
    g.ops.push(Op::New {
        h: 0,
        kind: HKind::Matcher,
        alt: None,
    });
    // a warm-up prefix
    for _ in 0..g.rng.below(6) {
        let p = g.honest();
        g.ops.push(Op::Commit {
            h: 0,
            pick: p,
            fuel_at: None,
        });
    }
    for _ in 0..bursts {
        // snapshot (R-snap), then a burst of k commits, then roll back k (or nested pieces of it)
        g.ops.push(Op::Clone {
            src: 0,
            dst: 9,
            deep: true,
        });
        let k = g.rng.range(1, 6);
        let mut committed = 0;
        for _ in 0..k {
            match g.rng.below(10) {
                0 => {
                    let n = g.rng.range(2, 3);
                    let picks = (0..n).map(|_| g.honest()).collect();
                    g.ops.push(Op::CommitMany { h: 0, picks });
                    committed += n;
                }
                1 => {
                    // towards completion / EOS
                    g.ops.push(Op::Commit {
                        h: 0,
                        pick: Pick::Mask(g.rng.next_u64()),
                        fuel_at: None,
                    });
                    committed += 1;
                }
                2 => {
                    g.ops.push(Op::Commit {
                        h: 0,
                        pick: Pick::EosAlt(g.rng.next_u64()),
                        fuel_at: None,
                    });
                    // only counts if accepted; the executor's model is authoritative, k below is
                    // clamped by it (rollback of more than the history is a separate, abusive op)
                    committed += 1;
                }
                _ => {
                    let p = g.honest();
                    g.ops.push(Op::Commit {
                        h: 0,
                        pick: p,
                        fuel_at: None,
                    });
                    committed += 1;
                }
            }
            if g.rng.chance(0.3) {
                let n = g.rng.range(1, 2);
                g.perturb(0, n);
            }
        }
        // RollbackBurst is expressed as Rollback{k}: if some commits did not happen (stop reached),
        // k may exceed what was added in this burst and eat into the prefix - still a valid rollback
        // as long as it does not exceed the whole history; the snapshot comparison is only made
        // when histories are equal (executor checks).
        let nested = g.rng.chance(0.3) && committed >= 2;
        if nested {
            let k1 = g.rng.range(1, committed - 1);
            g.ops.push(Op::Rollback { h: 0, k: k1 });
            g.ops.push(Op::ChkFresh { h: 0 });
            let p = g.honest();
            g.ops.push(Op::Commit {
                h: 0,
                pick: p,
                fuel_at: None,
            });
            g.ops.push(Op::Rollback {
                h: 0,
                k: committed - k1 + 1,
            });
        } else if g.rng.chance(0.1) {
            g.ops.push(Op::Reset { h: 0 });
        } else if g.rng.chance(0.25) {
            // forced-byte query at the old length, roll back, blind re-commit to the same token count
            g.ops.push(Op::FfBytes { h: 0 });
            g.ops.push(Op::Rollback { h: 0, k: committed });
            let picks = (0..committed).map(|_| g.honest()).collect();
            g.ops.push(Op::CommitMany { h: 0, picks });
            g.ops.push(Op::ChkFresh { h: 0 });
            g.ops.push(Op::Rollback { h: 0, k: committed });
        } else {
            g.ops.push(Op::Rollback { h: 0, k: committed });
        }
        g.ops.push(Op::ChkFresh { h: 0 });
        let n = g.rng.range(3, 8);
        let picks = (0..n).map(|_| g.honest()).collect();
        g.ops.push(Op::ChkContinue {
            h: 0,
            snap: Some(9),
            picks,
        });
        // move on a little
        for _ in 0..g.rng.below(4) {
            let p = g.honest();
            g.ops.push(Op::Commit {
                h: 0,
                pick: p,
                fuel_at: None,
            });
        }
    }
    sc.tasks = vec![g.ops];
    sc
}

// ---------------------------------------------------------------------------------------- C13

pub fn random_prompt(rng: &mut Rng, vocab: &VocabSpec) -> Vec<u32> {
    let n = rng.below(5);
    let nv = vocab.words.len() - SPECIALS.len();
    (0..n)
        .map(|_| {
            // printable single bytes and multi-byte words, never 0xFF
            loop {
                let t = rng.below(nv) as u32;
                let w = unhex(&vocab.words[t as usize]);
                if !w.is_empty() && !w.contains(&0xff) && w.iter().all(|b| *b >= 0x20 && *b < 0x7f) {
                    return t;
                }
            }
        })
        .collect()
}

fn gen_c13(rng: &mut Rng, seed: u64, index: u64, long: bool) -> Scenario {
    let mut o = WorldOpts::default();
    // token-reference grammars take part too (forced special tokens); the byte-replica clauses skip them
    o.avoid_tags = vec!["heavy"];
    o.prefer_tags = vec!["ff"];
    o.canonical = Some(true);
    let (world, productive) = gen_world(rng, &o);
    let prompt = random_prompt(rng, &world.vocab);
    let mut sc = base("C13", "ff", seed, index, world, productive);
    let steps = if long { rng.range(20, 50) } else { rng.range(8, 24) };
    let sub = rng.below(4);
    let mut g = G { rng, ops: vec![] };
    if sub == 3 {
        // the canonical tokenizer is the C tokenize_fn callback (two-call "buffer too small" protocol)
        sc.family = "ff_c_callback".into();
        sc.c_tok_v2 = g.rng.chance(0.5);
        g.ops.push(Op::New {
            h: 0,
            kind: HKind::CConstraint { ff: true },
            alt: None,
        });
        g.ops.push(Op::New {
            h: 1,
            kind: HKind::CConstraint { ff: false },
            alt: None,
        });
        for _ in 0..steps {
            for h in 0..2 {
                let p = g.honest();
                g.ops.push(Op::CMaskOnly { h });
                g.ops.push(Op::ChkText { h });
                g.ops.push(Op::CCommitOnly { h, pick: p });
            }
        }
        for h in 0..2 {
            g.ops.push(Op::ChkText { h });
        }
    } else if sub == 0 {
        sc.family = "ff_matcher".into();
        g.ops.push(Op::New {
            h: 0,
            kind: HKind::Matcher,
            alt: None,
        });
        g.ops.push(Op::ChkFf { h: 0 });
        for _ in 0..steps {
            let n = g.rng.below(2);
            g.perturb(0, n);
            match g.rng.below(10) {
                0..=2 => g.ops.push(Op::ConsumeFf { h: 0 }),
                3 => {
                    // forced bytes reported while a rollback is about to remove what they follow:
                    // after the rollback the forced bytes are those of the shorter history
                    g.ops.push(if g.rng.chance(0.5) { Op::FfBytes { h: 0 } } else { Op::FfTokens { h: 0 } });
                    let k = g.rng.range(1, 3);
                    g.ops.push(Op::Rollback { h: 0, k });
                    g.ops.push(Op::ChkFresh { h: 0 });
                }
                _ => {
                    let p = g.honest();
                    g.ops.push(Op::Commit {
                        h: 0,
                        pick: p,
                        fuel_at: None,
                    });
                }
            }
            g.ops.push(Op::ChkFf { h: 0 });
            if g.rng.chance(0.3) {
                g.ops.push(Op::ChkFresh { h: 0 });
            }
        }
    } else {
        // sampling loop with ff_tokens on (h0) and off (h1), each validated against the byte replica
        // and against a fresh matcher fed the same tokens
        sc.family = "ff_constraint".into();
        g.ops.push(Op::New {
            h: 0,
            kind: HKind::Constraint { ff: true },
            alt: None,
        });
        g.ops.push(Op::New {
            h: 1,
            kind: HKind::Constraint { ff: false },
            alt: None,
        });
        let with_prompt = sub == 2;
        for h in 0..2 {
            g.ops.push(Op::CStart {
                h,
                prompt: if with_prompt { prompt.clone() } else { vec![] },
            });
        }
        for _ in 0..steps {
            for h in 0..2 {
                let p = g.honest();
                g.ops.push(Op::CMaskOnly { h });
                g.ops.push(Op::ChkText { h });
                g.ops.push(Op::CCommitOnly { h, pick: p });
            }
        }
        for h in 0..2 {
            g.ops.push(Op::ChkText { h });
        }
    }
    sc.tasks = vec![g.ops];
    sc
}

// ---------------------------------------------------------------------------------------- C14

pub fn gen_schedule(rng: &mut Rng) -> ScheduleSpec {
    let strategy = match rng.below(10) {
        0..=3 => Strategy::Uniform,
        4..=6 => Strategy::Sticky,
        7..=8 => Strategy::Pct,
        _ => Strategy::Serial,
    };
    ScheduleSpec {
        strategy,
        seed: rng.next_u64(),
        sticky_period: [2u32, 5, 20, 100][rng.below(4)],
        pct_depth: rng.range(1, 4) as u32,
        explicit: None,
        preempt_at: vec![],
    }
}

fn gen_c14(rng: &mut Rng, seed: u64, index: u64, long: bool) -> Scenario {
    let sub = rng.below(10);
    if sub == 0 {
        return gen_par(rng, seed, index, long, "C14");
    }
    if sub == 1 {
        return gen_stop_ctrl(rng, seed, index, long, "C14", true);
    }
    if sub == 2 {
        return gen_capi_threads(rng, seed, index, long);
    }
    if sub == 3 {
        return gen_c14_budget(rng, seed, index, long);
    }
    let faulty = rng.chance(0.25);
    let mut o = WorldOpts::default();
    o.tight_limits = faulty && rng.chance(0.5);
    // scheduling points multiply the cost: moderate vocabularies
    o.vocab_kinds = vec!["byte", "synth", "synth", "bpe"];
    let (world, productive) = gen_world(rng, &o);
    let mut sc = base("C14", "clones", seed, index, world, productive);
    sc.fault_injecting = faulty;
    sc.threads = true;
    sc.schedule = Some(gen_schedule(rng));
    let n_tasks = if long { rng.range(2, 8) } else { rng.range(2, 4) };
    let n_handles = (n_tasks + rng.below(if long { 9 } else { 4 })).min(16);
    let mut g = G { rng, ops: vec![] };
    g.ops.push(Op::New {
        h: 0,
        kind: HKind::Matcher,
        alt: None,
    });
    // root gets a history first so that clones start from a non-trivial shared state
    for _ in 0..g.rng.below(5) {
        let p = g.honest();
        g.ops.push(Op::Commit {
            h: 0,
            pick: p,
            fuel_at: None,
        });
    }
    for hnew in 1..n_handles {
        let src = g.rng.below(hnew);
        let deep = g.rng.chance(0.3);
        g.ops.push(Op::Clone {
            src,
            dst: hnew,
            deep,
        });
        if g.rng.chance(0.3) {
            let p = g.honest();
            g.ops.push(Op::Commit {
                h: hnew,
                pick: p,
                fuel_at: None,
            });
        }
    }
    sc.setup = std::mem::take(&mut g.ops);
    // distribute handles over tasks
    let mut owner: Vec<Vec<SlotId>> = vec![vec![]; n_tasks];
    for h in 0..n_handles {
        owner[h % n_tasks].push(h);
    }
    let mut next_slot = n_handles;
    for t in 0..n_tasks {
        let mut mine = owner[t].clone();
        let n_ops = if long { g.rng.range(5, 20) } else { g.rng.range(4, 10) };
        for _ in 0..n_ops {
            let h = *g.rng.pick(&mine);
            match g.rng.below(20) {
                0..=8 => {
                    let p = g.honest();
                    let f = if faulty { g.fuel(0.08) } else { None };
                    g.ops.push(Op::Commit {
                        h,
                        pick: p,
                        fuel_at: f,
                    });
                    g.ops.push(Op::ChkFresh { h });
                }
                9..=11 => {
                    let f = if faulty { g.fuel(0.1) } else { None };
                    g.ops.push(Op::Mask { h, fuel_at: f });
                    g.ops.push(Op::ChkFresh { h });
                }
                12 => {
                    let k = g.rng.range(1, 3);
                    let picks = (0..k).map(|_| g.any_pick()).collect();
                    g.ops.push(Op::Validate { h, picks });
                }
                13 => {
                    let k = g.rng.range(1, 2);
                    g.ops.push(Op::Rollback { h, k });
                    g.ops.push(Op::ChkFresh { h });
                }
                14 if next_slot < 32 => {
                    // clone of a clone, at a random time, owned by this task
                    let deep = g.rng.chance(0.3);
                    g.ops.push(Op::Clone {
                        src: h,
                        dst: next_slot + 100 * (t + 1),
                        deep,
                    });
                    mine.push(next_slot + 100 * (t + 1));
                    next_slot += 1;
                }
                15 if faulty => {
                    g.ops.push(Op::TriggerPanic { h });
                }
                16 => {
                    let s = g.rng.next_u64();
                    g.ops.push(Op::ChkAccept {
                        h,
                        sample: 24,
                        seed: s,
                    });
                }
                17 => g.ops.push(Op::FfTokens { h }),
                18 if mine.len() > 1 => g.ops.push(Op::Drop { h }),
                _ => {
                    g.ops.push(Op::IsAccepting { h });
                }
            }
        }
        // final verdict for every handle this task owns
        for h in &mine {
            g.ops.push(Op::ChkFresh { h: *h });
        }
        sc.tasks.push(std::mem::take(&mut g.ops));
    }
    sc
}

/// Step budgets across clones that share a lexer: the only tight limit is step_lexer_fuel, a victim
/// clone asks for a mask now and then while its siblings (diverging histories) grow the shared
/// automaton in between. Oracles: the budget accounting window around every mask (exec.rs
/// budget_window_*), and the usual fresh-engine comparison (masks only: limit stops are legal).
/// Half of the runs are one task interleaving the handles operation by operation (all windows
/// clean), the other half simulated threads under schedules that switch rarely.
fn gen_c14_budget(rng: &mut Rng, seed: u64, index: u64, long: bool) -> Scenario {
    let mut o = WorldOpts::default();
    o.canonical = Some(false);
    o.vocab_kinds = vec!["byte", "synth", "synth"];
    let (mut world, productive) = gen_world(rng, &o);
    world.limits = LimitsSpec::default();
    if rng.chance(0.65) {
        world.limits.step_lexer_fuel = rng.log_uniform(40, 4000);
    } else {
        // the Earley item budget is per engine: a sibling that runs out of it must not take the
        // others with it (oracle: exec.rs on_matcher_err, "item_limit_not_earned")
        world.limits.step_max_items = rng.log_uniform(10, 3000) as usize;
    }
    let mut sc = base("C14", "clone_budget", seed, index, world, productive);
    sc.fault_injecting = true;
    sc.budget_oracle = true;
    let threads = rng.chance(0.5);
    let n_handles = rng.range(2, if long { 6 } else { 4 });
    let mut g = G { rng, ops: vec![] };
    g.ops.push(Op::New {
        h: 0,
        kind: HKind::Matcher,
        alt: None,
    });
    for _ in 0..g.rng.below(3) {
        let p = g.honest();
        g.ops.push(Op::Commit {
            h: 0,
            pick: p,
            fuel_at: None,
        });
    }
    for hnew in 1..n_handles {
        let src = g.rng.below(hnew);
        g.ops.push(Op::Clone {
            src,
            dst: hnew,
            deep: false,
        });
    }
    sc.setup = std::mem::take(&mut g.ops);
    let victim = g.rng.below(n_handles);
    let step = |g: &mut G, h: SlotId, with_mask: bool| {
        if with_mask {
            g.ops.push(Op::Mask { h, fuel_at: None });
        }
        let p = g.honest();
        g.ops.push(Op::Commit {
            h,
            pick: p,
            fuel_at: None,
        });
    };
    if !threads {
        let rounds = if long { g.rng.range(4, 12) } else { g.rng.range(3, 7) };
        for _ in 0..rounds {
            // siblings run ahead, creating lexer states the victim has not paid for
            for _ in 0..g.rng.range(2, if long { 30 } else { 14 }) {
                let mut h = g.rng.below(n_handles);
                if h == victim {
                    h = (h + 1) % n_handles;
                }
                let with_mask = g.rng.chance(0.8);
                step(&mut g, h, with_mask);
            }
            step(&mut g, victim, true);
            if g.rng.chance(0.5) {
                g.ops.push(Op::ChkFresh { h: victim });
            }
        }
        for h in 0..n_handles {
            g.ops.push(Op::ChkFresh { h });
        }
        sc.tasks = vec![std::mem::take(&mut g.ops)];
    } else {
        sc.threads = true;
        let mut spec = gen_schedule(g.rng);
        spec.strategy = match g.rng.below(4) {
            0 => Strategy::Serial,
            1 => Strategy::Pct,
            _ => Strategy::Sticky,
        };
        spec.sticky_period = [20u32, 100, 400][g.rng.below(3)];
        sc.schedule = Some(spec);
        let n_tasks = n_handles.min(g.rng.range(2, 4));
        for t in 0..n_tasks {
            let mine: Vec<SlotId> = (0..n_handles).filter(|h| h % n_tasks == t).collect();
            let n_ops = if long { g.rng.range(8, 40) } else { g.rng.range(5, 16) };
            for _ in 0..n_ops {
                let h = *g.rng.pick(&mine);
                if h == victim && g.rng.chance(0.6) {
                    // the victim moves slowly
                    g.ops.push(Op::IsAccepting { h });
                    continue;
                }
                let with_mask = g.rng.chance(0.8);
                step(&mut g, h, with_mask);
            }
            for h in &mine {
                g.ops.push(Op::ChkFresh { h: *h });
            }
            sc.tasks.push(std::mem::take(&mut g.ops));
        }
    }
    sc
}

/// C-API constraints (llg_clone_constraint = shallow clones sharing the lexer) and Rust constraints,
/// each owned by one simulated task, driven through the sampling loop concurrently
fn gen_capi_threads(rng: &mut Rng, seed: u64, index: u64, long: bool) -> Scenario {
    let mut o = WorldOpts::default();
    o.canonical = Some(rng.chance(0.4));
    let (world, productive) = gen_world(rng, &o);
    let canonical = world.canonical;
    let mut sc = base("C14", "capi_threads", seed, index, world, productive);
    sc.threads = true;
    sc.schedule = Some(gen_schedule(rng));
    sc.c_tok_v2 = rng.chance(0.5);
    let n_tasks = if long { rng.range(2, 6) } else { rng.range(2, 3) };
    let via_c = rng.chance(0.6);
    let ff = canonical && rng.chance(0.4);
    let mut g = G { rng, ops: vec![] };
    g.ops.push(Op::New {
        h: 0,
        kind: if via_c {
            HKind::CConstraint { ff }
        } else {
            HKind::Constraint { ff }
        },
        alt: None,
    });
    // a shared prefix, so that clones start from a non-trivial shared lexer
    for _ in 0..g.rng.below(4) {
        let p = g.honest();
        g.ops.push(Op::CStep { h: 0, pick: p });
    }
    for hnew in 1..n_tasks {
        let src = g.rng.below(hnew);
        g.ops.push(Op::Clone {
            src,
            dst: hnew,
            deep: !via_c && g.rng.chance(0.3),
        });
    }
    sc.setup = std::mem::take(&mut g.ops);
    for t in 0..n_tasks {
        let n_ops = if long { g.rng.range(5, 16) } else { g.rng.range(3, 8) };
        for _ in 0..n_ops {
            let p = g.honest();
            g.ops.push(Op::CMaskOnly { h: t });
            g.ops.push(Op::ChkText { h: t });
            g.ops.push(Op::CCommitOnly { h: t, pick: p });
        }
        g.ops.push(Op::ChkText { h: t });
        sc.tasks.push(std::mem::take(&mut g.ops));
    }
    sc
}

/// C constraints driven through llg_par_compute_mask batches (C14 / C17)
fn gen_par(rng: &mut Rng, seed: u64, index: u64, long: bool, prop: &str) -> Scenario {
    let faulty = prop == "C17" && rng.chance(0.0);
    let mut o = WorldOpts::default();
    o.canonical = Some(rng.chance(0.3));
    if prop == "C17" {
        // vocabulary sizes around multiples of 32
        o.vocab_kinds = vec!["byte", "synth", "bpe", "bpe"];
    }
    let (world, productive) = gen_world(rng, &o);
    let nv = world.vocab.words.len();
    let exact = nv.div_ceil(32);
    let mut sc = base(prop, "par_mask", seed, index, world, productive);
    sc.fault_injecting = faulty;
    sc.c_tok_v2 = rng.chance(0.5);
    let scheduled = prop == "C14" || rng.chance(0.3);
    sc.threads = scheduled;
    if scheduled {
        sc.schedule = Some(gen_schedule(rng));
    }
    let n = if long { rng.range(2, 8) } else { rng.range(2, 4) };
    let rounds = if long { rng.range(4, 12) } else { rng.range(3, 6) };
    let mut g = G { rng, ops: vec![] };
    for h in 0..n {
        if h > 0 && g.rng.chance(0.5) {
            // llg_clone_constraint: shallow clone sharing the lexer
            let src = g.rng.below(h);
            g.ops.push(Op::Clone {
                src,
                dst: h,
                deep: false,
            });
        } else {
            g.ops.push(Op::New {
                h,
                kind: HKind::CConstraint { ff: false },
                alt: None,
            });
        }
        // Rust twin for cross-checking
    }
    sc.setup = std::mem::take(&mut g.ops);
    let hs: Vec<SlotId> = (0..n).collect();
    for round in 0..rounds {
        let words: Vec<usize> = hs
            .iter()
            .map(|_| match g.rng.below(10) {
                0 => 0,
                1 => 1,
                2 => exact.saturating_sub(1),
                3..=5 => exact,
                6 => exact + 1,
                7 => exact + g.rng.range(2, 8),
                8 => exact * 2,
                _ => exact * 4,
            })
            .collect();
        let is_async = g.rng.chance(0.5);
        // steps the caller got wrong must not disturb the others: NULL constraint pointers in
        // between, and (last round only: that handle is failed afterwards) invalid parameters
        let mut quirks: Vec<u8> = vec![];
        if g.rng.chance(0.4) {
            quirks = hs.iter().map(|_| if g.rng.chance(0.3) { 1 } else { 0 }).collect();
        }
        if round + 1 == rounds && g.rng.chance(0.15) {
            if quirks.is_empty() {
                quirks = vec![0; hs.len()];
            }
            let i = g.rng.below(hs.len());
            quirks[i] = if g.rng.chance(0.5) { 2 } else { 3 };
        }
        g.ops.push(Op::ParMask {
            hs: hs.clone(),
            words,
            is_async,
            quirks,
        });
        for &h in &hs {
            let p = g.honest();
            g.ops.push(Op::ChkText { h });
            g.ops.push(Op::CCommitOnly { h, pick: p });
        }
    }
    sc.tasks = vec![std::mem::take(&mut g.ops)];
    sc
}

// ---------------------------------------------------------------------------------------- C17

fn gen_c17(rng: &mut Rng, seed: u64, index: u64, long: bool) -> Scenario {
    let sub = rng.below(10);
    if sub < 3 {
        return gen_par(rng, seed, index, long, "C17");
    }
    let mut o = WorldOpts::default();
    o.canonical = Some(rng.chance(0.5));
    if sub >= 7 && rng.chance(0.25) {
        // constraint twins on grammars that set the sampling temperature
        o.want_tags = vec!["temp"];
    }
    let (world, productive) = gen_world(rng, &o);
    let nv = world.vocab.words.len();
    let exact = nv.div_ceil(32);
    let mut sc = base("C17", "capi", seed, index, world, productive);
    sc.c_tok_v2 = rng.chance(0.5);
    let steps = if long { rng.range(25, 60) } else { rng.range(10, 28) };
    let mut g = G { rng, ops: vec![] };
    if sub < 7 {
        // matcher twins
        sc.family = "capi_matcher".into();
        sc.mirrors = vec![vec![0, 1]];
        g.ops.push(Op::New {
            h: 0,
            kind: HKind::Matcher,
            alt: None,
        });
        g.ops.push(Op::New {
            h: 1,
            kind: HKind::CMatcher,
            alt: None,
        });
        g.ops.push(Op::ChkMirror { h: 0 });
        for _ in 0..steps {
            match g.rng.below(20) {
                0..=1 => {
                    let k = g.rng.range(1, 3);
                    g.ops.push(Op::Rollback { h: 0, k });
                }
                2 => {
                    let k = g.rng.range(2, 4);
                    let picks = (0..k).map(|_| g.honest()).collect();
                    g.ops.push(Op::CommitMany { h: 0, picks });
                }
                3 => g.ops.push(Op::Reset { h: 0 }),
                4..=5 => {
                    let w = match g.rng.below(6) {
                        0 => exact.saturating_sub(1),
                        1 => exact + 1,
                        2 => 0,
                        _ => exact,
                    };
                    g.ops.push(Op::CMaskInto { h: 1, words: w });
                }
                8 => {
                    let len = *g.rng.pick(&[0usize, 1, 1, 2, 3, 5, 64]);
                    g.ops.push(Op::CFfInto { h: 1, len });
                }
                9 => {
                    let which = g.rng.below(16) as u8;
                    let len = *g.rng.pick(&[0usize, 0, 1, 2, 3, 4, 5, 7, 8, 16, 33, 200]);
                    let seed = g.rng.next_u64();
                    let via_clone = g.rng.chance(0.3);
                    g.ops.push(Op::CTokUtil { which, seed, len, via_clone });
                }
                6 | 10 => {
                    let k = g.rng.range(1, 4);
                    let mut picks: Vec<Pick> = (0..k).map(|_| g.any_pick()).collect();
                    if g.rng.chance(0.5) {
                        // a draft that spells the pending forced bytes with other tokens than the
                        // canonical ones (valid for validate_tokens, not in a narrowed mask)
                        let n = g.rng.range(1, 3);
                        let mut f: Vec<Pick> = (0..n).map(|_| Pick::ForcedSplit(g.rng.next_u64())).collect();
                        f.extend(picks.into_iter().take(1));
                        picks = f;
                    }
                    g.ops.push(Op::Validate {
                        h: 0,
                        picks: picks.clone(),
                    });
                    g.ops.push(Op::Validate { h: 1, picks });
                }
                7 => {
                    let s = g.rng.next_u64();
                    g.ops.push(Op::ChkAccept {
                        h: 1,
                        sample: 32,
                        seed: s,
                    });
                }
                _ => {
                    let p = g.honest();
                    g.ops.push(Op::Commit {
                        h: 0,
                        pick: p,
                        fuel_at: None,
                    });
                }
            }
            g.ops.push(Op::ChkMirror { h: 0 });
        }
    } else {
        // constraint twins through llg_compute_mask / llg_commit_token
        sc.family = "capi_constraint".into();
        let ff = sc.world.canonical && g.rng.chance(0.5);
        sc.mirrors = vec![vec![0, 1]];
        g.ops.push(Op::New {
            h: 0,
            kind: HKind::Constraint { ff },
            alt: None,
        });
        g.ops.push(Op::New {
            h: 1,
            kind: HKind::CConstraint { ff },
            alt: None,
        });
        for _ in 0..steps {
            let p = g.honest();
            g.ops.push(Op::CStep { h: 0, pick: p });
            if g.rng.chance(0.3) {
                g.ops.push(Op::ChkText { h: 1 });
            }
        }
    }
    sc.tasks = vec![g.ops];
    sc
}

// ---------------------------------------------------------------------------------------- C18

fn stop_words() -> Vec<&'static str> {
    vec![
        "STOP", "stop", "END", "ab", "abc", "bc", "aab", "aa", "\n\n", "the end", "né", "日本", "。", "xyzzy", "<end>", "a",
    ]
}

pub fn gen_stop_ctrl(rng: &mut Rng, seed: u64, index: u64, long: bool, prop: &str, threads: bool) -> Scenario {
    let mut o = WorldOpts::default();
    o.vocab_kinds = vec!["byte", "synth", "bpe"];
    o.allow_random_cfg = false;
    let (mut world, productive) = gen_world(rng, &o);
    // text alphabet: small, so that stop strings actually occur
    let words = stop_words();
    let n_stop = rng.range(1, 3);
    let mut stop_strings: Vec<String> = vec![];
    for _ in 0..n_stop {
        let s = rng.pick(&words).to_string();
        // literal stop strings only: no regex meta characters (see DESIGN.md, C18)
        if !stop_strings.contains(&s) && !s.contains('<') {
            stop_strings.push(s);
        }
    }
    // make sure the vocabulary has multi-byte tokens overlapping the stop strings
    let mut extra: Vec<Vec<u8>> = vec![];
    for s in &stop_strings {
        let b = s.as_bytes();
        if b.len() >= 2 {
            extra.push(b[..b.len() - 1].to_vec());
            extra.push(b[1..].to_vec());
            let mut x = b"a".to_vec();
            x.extend_from_slice(&b[..1]);
            extra.push(x);
        }
    }
    if world.vocab.kind != "byte" {
        let n_sp = SPECIALS.len();
        let at = world.vocab.words.len() - n_sp;
        for (i, e) in extra.iter().enumerate() {
            world.vocab.words.insert(at + i, hex(e));
        }
        world.vocab.eos = (world.vocab.words.len() - 1) as u32;
        if !world.vocab.eos_extra.is_empty() {
            world.vocab.eos_extra = vec![(world.vocab.words.len() - SPECIALS.len() + 2) as u32];
        }
        world.vocab.mode = TokMode::Greedy;
    }
    let nv = world.vocab.words.len() as u32;
    let specials_base = nv - SPECIALS.len() as u32;
    let stop_tokens: Vec<u32> = if rng.chance(0.5) {
        vec![nv - 1]
    } else if rng.chance(0.5) {
        vec![nv - 1, specials_base + 1]
    } else {
        vec![]
    };
    let stop_regex = if rng.chance(0.15) {
        Some(rng.pick(&["he[XL]+a", "[0-9]{3}", "(foo|ba+r)"]).to_string())
    } else {
        None
    };
    let via_c = rng.chance(0.3);
    // the stream: random text over a small alphabet with stop strings planted, cut into tokens
    // by a random valid segmentation of the vocabulary
    let vocab_words: Vec<Vec<u8>> = world.vocab.words.iter().map(|w| unhex(w)).collect();
    let mut text: Vec<u8> = vec![];
    let alpha: Vec<&str> = vec!["a", "b", "c", " ", "x", "é", "日", "本", "\n", "S", "T", "O", "P", "n", "0", "1", "2"];
    let tlen = if long { rng.range(10, 60) } else { rng.range(5, 30) };
    // some streams contain broken characters (a lead byte that is never completed, a truncated
    // three-byte character, a lone continuation byte), often right in front of a stop string
    let broken = rng.chance(0.2);
    for _ in 0..tlen {
        if broken && rng.chance(0.1) {
            let frag: &[u8] = match rng.below(5) {
                0 => &[0xC3],
                1 => &[0xE6, 0x97],
                2 => &[0xA9],
                3 => &[0xF0, 0x9F, 0x98],
                _ => &[0xE6],
            };
            text.extend_from_slice(frag);
            if rng.chance(0.6) && !stop_strings.is_empty() {
                let s = rng.pick(&stop_strings).clone();
                text.extend_from_slice(s.as_bytes());
            }
            continue;
        }
        if rng.chance(0.12) && !stop_strings.is_empty() {
            // plant a stop string or a near miss
            let s = rng.pick(&stop_strings).clone();
            if rng.chance(0.3) && s.len() > 1 {
                text.extend_from_slice(&s.as_bytes()[..s.len() - 1]);
            } else {
                text.extend_from_slice(s.as_bytes());
            }
        } else {
            text.extend_from_slice(rng.pick(&alpha).as_bytes());
        }
    }
    // random segmentation: at each position choose among all vocabulary tokens that are a prefix
    let mut toks: Vec<u32> = vec![];
    let mut pos = 0;
    while pos < text.len() {
        let mut cands: Vec<u32> = vec![];
        for (i, w) in vocab_words.iter().enumerate() {
            if !w.is_empty() && w[0] != 0xff && text[pos..].starts_with(w) {
                cands.push(i as u32);
            }
        }
        if cands.is_empty() {
            pos += 1;
            continue;
        }
        let t = if rng.chance(0.5) {
            // longest
            *cands
                .iter()
                .max_by_key(|t| vocab_words[**t as usize].len())
                .unwrap()
        } else {
            *rng.pick(&cands)
        };
        toks.push(t);
        pos += vocab_words[t as usize].len();
        if rng.chance(0.04) {
            // a special (non-stop) token in the stream
            toks.push(specials_base);
        }
        // ... and sometimes right inside an occurrence of a stop string (the text then contains
        // no stop string: matching restarts at a special token)
        for s in &stop_strings {
            let sb = s.as_bytes();
            if sb.len() >= 2 && pos < text.len() && pos >= 1 && rng.chance(0.25) {
                for cut in 1..sb.len() {
                    if pos >= cut && text[pos - cut..].starts_with(sb) {
                        toks.push(specials_base);
                        break;
                    }
                }
            }
        }
    }
    if !stop_tokens.is_empty() && rng.chance(0.5) {
        let at = rng.below(toks.len() + 1);
        toks.insert(at, stop_tokens[0]);
    }
    let mut sc = base(prop, "stop_ctrl", seed, index, world, productive);
    sc.threads = threads;
    if threads {
        sc.schedule = Some(gen_schedule(rng));
    }
    let n_clones = if threads { rng.range(2, 4) } else { rng.range(1, 2) };
    sc.setup.push(Op::StopNew {
        h: 0,
        stop_tokens,
        stop_strings,
        stop_regex,
        via_c,
    });
    for c in 1..n_clones {
        sc.setup.push(Op::StopClone { src: 0, dst: c });
    }
    for c in 0..n_clones {
        let mut ops = vec![];
        for (i, t) in toks.iter().enumerate() {
            ops.push(Op::StopCommit { h: c, tok: *t });
            if i % 3 == c % 3 || i + 1 == toks.len() {
                ops.push(Op::ChkStop { h: c });
            }
        }
        // nothing is returned once stopped
        for _ in 0..2 {
            // (not NUL: text containing NUL cannot travel through the C string interface)
            ops.push(Op::StopCommit {
                h: c,
                tok: 32 + rng.below(90) as u32,
            });
        }
        ops.push(Op::ChkStop { h: c });
        sc.tasks.push(ops);
    }
    if !threads {
        // single task: interleave the clones' streams in one list
        let lists = std::mem::take(&mut sc.tasks);
        let mut merged = vec![];
        let mut idx = vec![0usize; lists.len()];
        loop {
            let live: Vec<usize> = (0..lists.len()).filter(|i| idx[*i] < lists[*i].len()).collect();
            if live.is_empty() {
                break;
            }
            let l = *rng.pick(&live);
            merged.push(lists[l][idx[l]].clone());
            idx[l] += 1;
        }
        sc.tasks = vec![merged];
    }
    sc
}

fn gen_c18(rng: &mut Rng, seed: u64, index: u64, long: bool) -> Scenario {
    let sub = rng.below(10);
    if sub < 3 {
        let threads = rng.chance(0.3);
        return gen_stop_ctrl(rng, seed, index, long, "C18", threads);
    }
    let abusive = rng.chance(0.5);
    let mut o = WorldOpts::default();
    o.avoid_tags = vec!["heavy", "tokref"];
    o.prefer_tags = vec!["stopc"];
    o.canonical = Some(rng.chance(0.5));
    let (world, productive) = gen_world(rng, &o);
    let canonical = world.canonical;
    let mut sc = base("C18", "proto", seed, index, world, productive);
    sc.fault_injecting = abusive;
    let steps = if long { rng.range(20, 60) } else { rng.range(8, 28) };
    let mut g = G { rng, ops: vec![] };
    if sub < 7 {
        sc.family = "proto_matcher".into();
        g.ops.push(Op::New {
            h: 0,
            kind: HKind::Matcher,
            alt: None,
        });
        g.ops.push(Op::ChkByte { h: 0 });
        for _ in 0..steps {
            if abusive && g.rng.chance(0.12) {
                // F4: hostile caller
                let op = match g.rng.below(7) {
                    0 => Op::Commit {
                        h: 0,
                        pick: Pick::Outside(g.rng.next_u64()),
                        fuel_at: None,
                    },
                    1 => Op::Commit {
                        h: 0,
                        pick: Pick::OutOfRange(g.rng.below(1000) as u32),
                        fuel_at: None,
                    },
                    2 => Op::Rollback { h: 0, k: 1000 },
                    3 => Op::TriggerPanic { h: 0 },
                    4 => Op::Validate {
                        h: 0,
                        picks: vec![Pick::OutOfRange(g.rng.below(1000) as u32)],
                    },
                    5 => Op::Commit {
                        h: 0,
                        pick: Pick::EosAlt(g.rng.next_u64()),
                        fuel_at: None,
                    },
                    _ => Op::TryConsume {
                        h: 0,
                        picks: vec![g.any_pick(), g.any_pick(), g.any_pick()],
                    },
                };
                g.ops.push(op);
                g.ops.push(Op::ChkFresh { h: 0 });
                g.ops.push(Op::Mask { h: 0, fuel_at: None });
                g.ops.push(Op::MaskOrEos { h: 0 });
            } else {
                let p = match g.rng.below(12) {
                    0..=1 => Pick::Mask(g.rng.next_u64()),
                    // an end-of-sequence token (any of them in a multi-EOS vocabulary), allowed or not
                    2 => Pick::EosAlt(g.rng.next_u64()),
                    _ => g.honest(),
                };
                if g.rng.chance(0.15) {
                    let k = g.rng.range(2, 4);
                    let mut picks: Vec<Pick> = (0..k).map(|_| g.honest()).collect();
                    if g.rng.chance(0.4) {
                        // end-of-sequence (or a token that completes the grammar) in the middle of a batch
                        let at = g.rng.below(picks.len());
                        picks[at] = Pick::EosAlt(g.rng.next_u64());
                    }
                    g.ops.push(Op::TryConsume { h: 0, picks });
                } else {
                    g.ops.push(Op::Commit {
                        h: 0,
                        pick: p,
                        fuel_at: None,
                    });
                }
                g.ops.push(Op::ChkByte { h: 0 });
                if g.rng.chance(0.3) {
                    g.ops.push(Op::MaskOrEos { h: 0 });
                }
                if g.rng.chance(0.1) {
                    // calls after a (possible) stop
                    g.ops.push(Op::Mask { h: 0, fuel_at: None });
                }
                if g.rng.chance(0.08) {
                    let k = g.rng.range(1, 2);
                    g.ops.push(Op::Rollback { h: 0, k });
                    g.ops.push(Op::ChkByte { h: 0 });
                }
            }
        }
        g.ops.push(Op::ChkFresh { h: 0 });
    } else {
        sc.family = "proto_constraint".into();
        let ff = canonical && g.rng.chance(0.5);
        let via_c = g.rng.chance(0.3);
        g.ops.push(Op::New {
            h: 0,
            kind: if via_c {
                HKind::CConstraint { ff }
            } else {
                HKind::Constraint { ff }
            },
            alt: None,
        });
        for _ in 0..steps {
            if abusive && g.rng.chance(0.12) {
                let op = match g.rng.below(5) {
                    0 => Op::CCommitOnly {
                        h: 0,
                        pick: g.honest(),
                    }, // commit without mask
                    1 => Op::CStep {
                        h: 0,
                        pick: Pick::Outside(g.rng.next_u64()),
                    },
                    2 => Op::CStep {
                        h: 0,
                        pick: Pick::OutOfRange(g.rng.below(1000) as u32),
                    },
                    3 => Op::CMaskOnly { h: 0 }, // mask twice
                    _ => Op::CStep {
                        h: 0,
                        pick: Pick::EosAlt(g.rng.next_u64()),
                    },
                };
                g.ops.push(op);
            } else {
                let p = match g.rng.below(12) {
                    0..=1 => Pick::Mask(g.rng.next_u64()),
                    2 => Pick::EosAlt(g.rng.next_u64()),
                    _ => g.honest(),
                };
                g.ops.push(Op::CStep { h: 0, pick: p });
            }
            g.ops.push(Op::ChkText { h: 0 });
        }
        // after the end: keep calling
        g.ops.push(Op::CMaskOnly { h: 0 });
        g.ops.push(Op::CStep {
            h: 0,
            pick: Pick::Mask(1),
        });
        g.ops.push(Op::ChkText { h: 0 });
    }
    sc.tasks = vec![g.ops];
    sc
}

// ---------------------------------------------------------------------------------------- C20

pub fn mutate_text(rng: &mut Rng, text: &str, kind: GKind) -> String {
    let mut b: Vec<u8> = text.as_bytes().to_vec();
    let n = rng.range(1, 3);
    for _ in 0..n {
        if b.is_empty() {
            break;
        }
        match rng.below(9) {
            0 => {
                let at = rng.below(b.len());
                b.truncate(at);
            }
            1 => {
                let at = rng.below(b.len());
                b[at] ^= 1 << rng.below(7);
            }
            2 => {
                // nesting amplification
                // (the worker thread has an 8 MB stack: a front end that recurses per level without a
                // depth guard needs tens of thousands of levels to overflow it in a release build)
                let depth = if rng.chance(0.7) { rng.range(50, 3000) } else { rng.range(20_000, 120_000) };
                let (open, close) = match kind {
                    GKind::Json => *rng.pick(&[
                        ("{\"items\":", "}"),
                        ("{\"anyOf\":[", "]}"),
                        ("{\"properties\":{\"a\":", "}}"),
                        ("{\"allOf\":[{\"not\":", "}]}"),
                        ("[", "]"),
                    ]),
                    GKind::Regex => *rng.pick(&[("(", ")"), ("(?:", ")"), ("(a|", ")"), ("(", ")*")]),
                    GKind::Lark => *rng.pick(&[
                        ("(", ")"),
                        ("[", "]"),
                        ("%lark {\nstart: ", "\n}"),
                        ("(\"a\" | ", ")"),
                        ("%json {\"items\":", "}"),
                    ]),
                };
                let at = rng.below(b.len());
                let mut nb = b[..at].to_vec();
                for _ in 0..depth {
                    nb.extend_from_slice(open.as_bytes());
                }
                nb.extend_from_slice(b"a");
                for _ in 0..depth {
                    nb.extend_from_slice(close.as_bytes());
                }
                nb.extend_from_slice(&b[at..]);
                b = nb;
            }
            3 => {
                // huge counts / numbers
                let s = String::from_utf8_lossy(&b).to_string();
                let big = *rng.pick(&["4294967295", "99999999999999999999", "1000000", "65536", "0", "-1", "1e308", "0.000000001"]);
                let mut out = String::new();
                let mut done = false;
                let mut chars = s.chars().peekable();
                while let Some(c) = chars.next() {
                    // known finding F11: construction time and memory are linear in min/maxItems
                    // (no limit applies); keep the random mutations below the point where a single
                    // run costs minutes - the finding has its own regression scenario
                    let after_items = out.ends_with("Items\":") || out.ends_with("Items\": ");
                    let big = if after_items { "3000" } else { big };
                    if !done && c.is_ascii_digit() && rng.chance(0.3) {
                        while chars.peek().map(|x| x.is_ascii_digit()).unwrap_or(false) {
                            chars.next();
                        }
                        out.push_str(big);
                        done = true;
                    } else {
                        out.push(c);
                    }
                }
                b = out.into_bytes();
            }
            4 => {
                let at = rng.below(b.len());
                let ins = *rng.pick(&["\\", "\"", "{", "[", "(", "/", "~", "&", "%json {", "<[", "\u{0}", "\\u", "\\x", "{1000000}", "*+?", "|||", "é", "\n", "$ref"]);
                let mut nb = b[..at].to_vec();
                nb.extend_from_slice(ins.as_bytes());
                nb.extend_from_slice(&b[at..]);
                b = nb;
            }
            5 => {
                // duplicate a chunk many times
                let a = rng.below(b.len());
                let e = (a + rng.range(1, 20)).min(b.len());
                let chunk = b[a..e].to_vec();
                let reps = rng.range(2, 200);
                let mut nb = b[..e].to_vec();
                for _ in 0..reps {
                    nb.extend_from_slice(&chunk);
                }
                nb.extend_from_slice(&b[e..]);
                b = nb;
            }
            6 => {
                let a = rng.below(b.len());
                let e = (a + rng.range(1, 10)).min(b.len());
                b.drain(a..e);
            }
            7 => {
                // swap two chunks
                if b.len() > 8 {
                    let a = rng.below(b.len() - 4);
                    let c = rng.below(b.len() - 4);
                    for i in 0..4 {
                        b.swap(a + i, c + i);
                    }
                }
            }
            _ => {
                b = rng.pick(&["", " ", "start:", "start: start", "{", "{}", "[", "null", "start: \"a\" start | start \"b\"", "(", "a{1000000000}", "(a*)*b", "start: /(a|aa)+$/"]).as_bytes().to_vec();
            }
        }
    }
    String::from_utf8_lossy(&b).to_string()
}

fn gen_hostile_c(rng: &mut Rng, seed: u64, index: u64, _long: bool) -> Scenario {
    let mut o = WorldOpts::default();
    o.vocab_kinds = vec!["byte", "synth"];
    o.allow_random_cfg = false;
    let (world, _) = gen_world(rng, &o);
    let mut sc = base("C20", "hostile_c_api", seed, index, world, false);
    sc.fault_injecting = true;
    sc.c_tok_v2 = rng.chance(0.5);
    let mut ops = vec![];
    for _ in 0..rng.range(3, 8) {
        let e = pick_entry(rng, &WorldOpts { avoid_tags: vec![], ..WorldOpts::default() });
        let kind_tag = match e.kind {
            GKind::Lark => "lark",
            GKind::Regex => "regex",
            GKind::Json => "json_schema",
        };
        let text = instantiate_grammar_text(e.text, &sc.world.vocab);
        let data = if rng.chance(0.85) {
            mutate_text(rng, &text, e.kind)
        } else {
            text
        };
        let data: String = data.chars().filter(|c| *c != '\0').collect();
        let tag = match rng.below(12) {
            0 => "json".to_string(),
            1 => "llguidance".to_string(),
            2 => "json_object".to_string(),
            3 => "nonsense".to_string(),
            4 => "".to_string(),
            5 => "lark".to_string(),
            6 => "regex".to_string(),
            _ => kind_tag.to_string(),
        };
        let what = rng.pick(&["validate", "validate", "matcher", "matcher", "constraint", "stop", "tokenizer_json"]).to_string();
        let buf_len = *rng.pick(&[0usize, 1, 2, 8, 40, 256, 4096]);
        ops.push(Op::HostileC {
            what,
            tag,
            data,
            buf_len,
        });
    }
    sc.tasks = vec![ops];
    sc
}

/// JSON schemas built to stress the compiler's guards rather than its language: $ref alias chains
/// and cycles (with and without something to intersect with), legitimately recursive definitions,
/// numeric bounds and multipleOf at and beyond the i64 / f64 edges.
pub fn hostile_json_schema(rng: &mut Rng) -> String {
    let names = ["a", "b", "c", "d"];
    match rng.below(4) {
        0 | 1 => {
            // alias chain of length n, closed into a cycle or ending in a real schema
            let n = rng.range(1, 4);
            let cyclic = rng.chance(0.7);
            let mut defs = vec![];
            for i in 0..n {
                let target = if i + 1 < n {
                    format!("{{\"$ref\":\"#/$defs/{}\"}}", names[i + 1])
                } else if cyclic {
                    format!("{{\"$ref\":\"#/$defs/{}\"}}", names[rng.below(n)])
                } else {
                    "{\"type\":\"integer\",\"minimum\":0}".to_string()
                };
                defs.push(format!("\"{}\":{}", names[i], target));
            }
            let r = format!("{{\"$ref\":\"#/$defs/{}\"}}", names[0]);
            let other = *rng.pick(&["{\"type\":\"object\"}", "{\"type\":\"integer\"}", "{\"minimum\":3}", "{}"]);
            let body = match rng.below(5) {
                0 => format!("\"allOf\":[{r},{other}]"),
                1 => format!("\"$ref\":\"#/$defs/{}\",\"type\":\"integer\"", names[0]),
                2 => format!("\"type\":\"object\",\"properties\":{{\"x\":{{\"allOf\":[{r},{other}]}}}}"),
                3 => format!("\"anyOf\":[{r},{other}]"),
                _ => format!("\"$ref\":\"#/$defs/{}\"", names[0]),
            };
            format!("{{\"$defs\":{{{}}},{}}}", defs.join(","), body)
        }
        2 => "{\"$defs\":{\"n\":{\"type\":\"object\",\"properties\":{\"v\":{\"type\":\"integer\"},\"next\":{\"$ref\":\"#/$defs/n\"}},\"additionalProperties\":false}},\"$ref\":\"#/$defs/n\"}".to_string(),
        _ => {
            let edge = ["-1e20", "-99999999999999999999", "-9223372036854775808", "-9223372036854775807", "9223372036854775807", "9223372036854775808", "1e19", "1e308", "-1e308", "0", "-1", "195", "0.1", "4294967296"];
            let mult = ["1e-9", "3", "5", "1e18", "4294967296", "0.30000000000000004", "9223372036854775807", "1e-320"];
            let mut parts = vec![format!("\"type\":\"{}\"", if rng.chance(0.6) { "integer" } else { "number" })];
            if rng.chance(0.8) {
                parts.push(format!("\"{}\":{}", if rng.chance(0.7) { "minimum" } else { "exclusiveMinimum" }, rng.pick(&edge)));
            }
            if rng.chance(0.8) {
                parts.push(format!("\"{}\":{}", if rng.chance(0.7) { "maximum" } else { "exclusiveMaximum" }, rng.pick(&edge)));
            }
            if rng.chance(0.5) {
                parts.push(format!("\"multipleOf\":{}", rng.pick(&mult)));
            }
            format!("{{\"type\":\"object\",\"properties\":{{\"a\":{{{}}}}},\"required\":[\"a\"],\"additionalProperties\":false}}", parts.join(","))
        }
    }
}

fn gen_c20(rng: &mut Rng, seed: u64, index: u64, long: bool) -> Scenario {
    let sub = rng.below(10);
    if sub == 9 {
        return gen_hostile_c(rng, seed, index, long);
    }
    let mut o = WorldOpts::default();
    o.avoid_tags = vec![];
    o.prefer_tags = vec!["heavy"];
    o.tight_limits = rng.chance(0.7);
    o.swallowing_terminals = true;
    o.vocab_kinds = vec!["byte", "byte", "synth", "bpe"];
    let (mut world, productive) = gen_world(rng, &o);
    let mutated = sub < 3;
    if sub == 3 && rng.chance(0.35) {
        world.grammar_kind = GKind::Json;
        world.grammar_text = hostile_json_schema(rng);
        world.grammar_id = "json~hostile".into();
    } else if sub == 3 {
        world.grammar_kind = GKind::Lark;
        if rng.chance(0.7) {
            // parametric rules with indices / ranges / values at and just beyond their domain
            world.grammar_text = random_param_grammar(rng, true);
            world.grammar_id = "rand_param~hostile".into();
        } else {
            // token ranges <[lo-hi]> at and just beyond the vocabulary size
            let nv = world.vocab.words.len() as i64;
            let edge = |rng: &mut Rng| -> i64 {
                match rng.below(8) {
                    0 => nv - 1,
                    1..=2 => nv,
                    3 => nv + 1,
                    4 => 0,
                    5 => 4294967295,
                    6 => nv - 2,
                    _ => rng.below(nv as usize) as i64,
                }
            };
            let n = rng.range(1, 3);
            let mut alts = vec![];
            for _ in 0..n {
                let a = edge(rng);
                let b = edge(rng);
                let (lo, hi) = if rng.chance(0.85) { (a.min(b), a.max(b)) } else { (a, b) };
                let neg = if rng.chance(0.2) { "^" } else { "" };
                alts.push(match rng.below(3) {
                    0 => format!("<[{neg}{lo}-{hi}]>"),
                    1 => format!("<[{neg}{lo}-{hi},{}]>", edge(rng)),
                    _ => format!("<[{neg}{hi}]>"),
                });
            }
            world.grammar_text = format!(
                "start: {} ({}) {}\n",
                rng.pick(&["\"ab\"", "\"a\"", "/[a-c]{1,2}/", ""]),
                alts.join(" | "),
                rng.pick(&["\"z\"", "", "/[0-9]/"])
            );
            world.grammar_id = "token_range~hostile".into();
        }
    }
    let mutated = mutated || sub == 3;
    if sub < 3 {
        world.grammar_text = mutate_text(rng, &world.grammar_text, world.grammar_kind);
        world.grammar_id = format!("{}~mut", world.grammar_id);
        if rng.chance(0.2) {
            // malformed slice list
            world.slices = Some(vec![rng.pick(&["(", "[a-", "a{99999999}", "", "(.|\\n)*"]).to_string()]);
        }
    }
    let mut sc = base("C20", if mutated { "hostile_input" } else { "fault_history" }, seed, index, world, productive && !mutated);
    sc.fault_injecting = true;
    let steps = if long { rng.range(20, 60) } else { rng.range(8, 28) };
    let mut g = G { rng, ops: vec![] };
    g.ops.push(Op::New {
        h: 0,
        kind: HKind::Matcher,
        alt: None,
    });
    let mut have_sib = false;
    for _ in 0..steps {
        match g.rng.below(24) {
            0 => {
                let f = g.fuel(1.0);
                g.ops.push(Op::Mask { h: 0, fuel_at: f });
            }
            1 => g.ops.push(Op::Commit {
                h: 0,
                pick: Pick::Outside(g.rng.next_u64()),
                fuel_at: None,
            }),
            2 => g.ops.push(Op::Commit {
                h: 0,
                pick: Pick::OutOfRange(g.rng.below(100000) as u32),
                fuel_at: None,
            }),
            3 => g.ops.push(Op::Rollback {
                h: 0,
                k: g.rng.range(1, 50),
            }),
            4 => g.ops.push(Op::TriggerPanic { h: if have_sib { 1 } else { 0 } }),
            5 if !have_sib => {
                let deep = g.rng.chance(0.3);
                g.ops.push(Op::Clone { src: 0, dst: 1, deep });
                have_sib = true;
            }
            6 => {
                let k = g.rng.range(1, 5);
                let picks = (0..k).map(|_| g.any_pick()).collect();
                g.ops.push(Op::Validate { h: 0, picks });
            }
            7 => {
                let k = g.rng.range(2, 4);
                let picks = (0..k).map(|_| g.honest()).collect();
                g.ops.push(Op::CommitMany { h: 0, picks });
            }
            8 => g.ops.push(Op::ConsumeFf { h: 0 }),
            9 => g.ops.push(Op::Reset { h: 0 }),
            10 => g.perturb(0, 2),
            11 if have_sib => {
                let p = g.honest();
                let f = g.fuel(0.3);
                g.ops.push(Op::Commit {
                    h: 1,
                    pick: p,
                    fuel_at: f,
                });
                g.ops.push(Op::Mask { h: 1, fuel_at: None });
            }
            _ => {
                let p = g.honest();
                let f = g.fuel(0.15);
                g.ops.push(Op::Commit {
                    h: 0,
                    pick: p,
                    fuel_at: f,
                });
                g.ops.push(Op::Mask { h: 0, fuel_at: None });
            }
        }
        if g.rng.chance(0.4) {
            g.ops.push(Op::ChkFresh { h: 0 });
        }
    }
    g.ops.push(Op::ChkFresh { h: 0 });
    sc.tasks = vec![g.ops];
    sc
}
