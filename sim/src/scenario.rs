//! Scenario = world + explicit operation lists per task + schedule + fault decisions.
//! It is plain data (the replay file) and running it is a pure function of it and the code.

use serde::{Deserialize, Serialize};

use crate::sched::ScheduleSpec;
use crate::world::WorldSpec;

pub type SlotId = usize;

/// How a token argument is chosen. Resolved against the handle's state at execution time,
/// so that edited (shrunk) operation lists stay executable.
#[derive(Clone, Debug, Serialize, Deserialize, PartialEq)]
#[serde(rename_all = "snake_case")]
pub enum Pick {
    /// r-th allowed token of the current mask (honest sampler)
    Mask(u64),
    /// like Mask but avoids EOS when something else is allowed
    MaskNoEos(u64),
    /// longest allowed token (ties broken by r)
    Longest(u64),
    /// rarest-looking: highest token id region
    High(u64),
    /// EOS token, allowed or not
    Eos,
    /// r-th EOS token of a multi-EOS vocabulary (same as Eos when there is only one)
    EosAlt(u64),
    /// r-th token NOT in the mask (misbehaving sampler)
    Outside(u64),
    /// id >= vocab size
    OutOfRange(u32),
    /// explicit id
    Tok(u32),
    /// (validate only) next token of a random split of the pending forced bytes into vocabulary
    /// tokens - a valid draft that a canonical tokenizer would not produce
    ForcedSplit(u64),
}

impl Pick {
    pub fn is_honest(&self) -> bool {
        matches!(
            self,
            Pick::Mask(_) | Pick::MaskNoEos(_) | Pick::Longest(_) | Pick::High(_)
        )
    }
}

#[derive(Clone, Debug, Serialize, Deserialize, PartialEq)]
#[serde(rename_all = "snake_case")]
pub enum HKind {
    Matcher,
    CMatcher,
    Constraint { ff: bool },
    CConstraint { ff: bool },
}

#[derive(Clone, Debug, Serialize, Deserialize, PartialEq)]
#[serde(tag = "op", rename_all = "snake_case")]
pub enum Op {
    // ---- lifecycle
    New {
        h: SlotId,
        kind: HKind,
        /// index into world.alts (alternative slice lists) or None for the main factory
        #[serde(default, skip_serializing_if = "Option::is_none")]
        alt: Option<usize>,
    },
    Clone {
        src: SlotId,
        dst: SlotId,
        deep: bool,
    },
    Drop {
        h: SlotId,
    },
    /// another grammar is compiled and driven on the same (shared) factory first: whatever the
    /// factory-level objects (slicer, perf counters) remember must not leak into other engines
    Warm {
        #[serde(default, skip_serializing_if = "Option::is_none")]
        alt: Option<usize>,
        kind: crate::corpus::GKind,
        text: String,
        steps: usize,
        seed: u64,
    },
    // ---- read-only queries (they do touch hidden state: caches, lexer tables, row reuse)
    Mask {
        h: SlotId,
        #[serde(default, skip_serializing_if = "Option::is_none")]
        fuel_at: Option<u32>,
    },
    MaskOrEos {
        h: SlotId,
    },
    Validate {
        h: SlotId,
        picks: Vec<Pick>,
    },
    IsAccepting {
        h: SlotId,
    },
    FfBytes {
        h: SlotId,
    },
    FfTokens {
        h: SlotId,
    },
    Invalidate {
        h: SlotId,
    },
    // ---- mutations
    Commit {
        h: SlotId,
        pick: Pick,
        #[serde(default, skip_serializing_if = "Option::is_none")]
        fuel_at: Option<u32>,
    },
    CommitMany {
        h: SlotId,
        picks: Vec<Pick>,
    },
    TryConsume {
        h: SlotId,
        picks: Vec<Pick>,
    },
    ConsumeFf {
        h: SlotId,
    },
    Rollback {
        h: SlotId,
        k: usize,
    },
    Reset {
        h: SlotId,
    },
    /// interruption: panic inside the critical section (lexer moved out, lock held)
    TriggerPanic {
        h: SlotId,
    },
    // ---- constraint (sampling loop) operations
    CStart {
        h: SlotId,
        /// prompt given as picks into a sample text tokenization: explicit tokens
        prompt: Vec<u32>,
    },
    CStep {
        h: SlotId,
        pick: Pick,
    },
    CMaskOnly {
        h: SlotId,
    },
    CCommitOnly {
        h: SlotId,
        pick: Pick,
    },
    /// llg_par_compute_mask over several C constraints; buffer length in words relative to exact
    ParMask {
        hs: Vec<SlotId>,
        /// per step: number of u32 words in the destination buffer
        words: Vec<usize>,
        is_async: bool,
        /// per step (parallel to hs; missing = 0): 1 = a step with a NULL constraint pointer
        /// precedes this one in the batch, 2 = mask_byte_len is not a multiple of 4, 3 = NULL
        /// destination (2, 3: that constraint must report an error, nobody else is affected)
        #[serde(default, skip_serializing_if = "Vec::is_empty")]
        quirks: Vec<u8>,
    },
    CMaskInto {
        h: SlotId,
        words: usize,
    },
    /// llg_matcher_compute_ff_tokens into a caller buffer of `len` tokens (shorter than, equal to
    /// or longer than the forced sequence)
    CFfInto {
        h: SlotId,
        len: usize,
    },
    /// C17: tokenizer utility functions of the C API (llg_tokenize_bytes, llg_tokenize_bytes_marker,
    /// llg_stringify_tokens, llg_decode_tokens) with an output buffer of `len` elements between
    /// canaries; `which` selects the function, the input is derived from `seed`
    CTokUtil {
        which: u8,
        seed: u64,
        len: usize,
        via_clone: bool,
    },
    /// C20/C17: C constructors and validators fed hostile text; message buffers between canaries
    HostileC {
        what: String,
        tag: String,
        data: String,
        buf_len: usize,
    },
    // ---- stop controller
    StopNew {
        h: SlotId,
        stop_tokens: Vec<u32>,
        stop_strings: Vec<String>,
        #[serde(default, skip_serializing_if = "Option::is_none")]
        stop_regex: Option<String>,
        via_c: bool,
    },
    StopClone {
        src: SlotId,
        dst: SlotId,
    },
    StopCommit {
        h: SlotId,
        tok: u32,
    },
    ChkStop {
        h: SlotId,
    },
    // ---- oracles (checks are operations, so traces shrink uniformly)
    /// C01: mask == validate == commit for every (or `sample` many) token ids
    ChkAccept {
        h: SlotId,
        /// 0 = all token ids
        sample: usize,
        seed: u64,
    },
    /// C01: validate_tokens(seq) == longest committable prefix
    ChkSeq {
        h: SlotId,
        picks: Vec<Pick>,
    },
    /// C11/C12/C14: all observables equal those of a private freshly built engine fed the same tokens
    ChkFresh {
        h: SlotId,
    },
    /// C02/C18: agreement with the byte-level replica
    ChkByte {
        h: SlotId,
    },
    /// C02: the same bytes under a different split into tokens of the same vocabulary
    ChkResplit {
        h: SlotId,
        seed: u64,
    },
    /// C03: bounded search for a proved dead end
    ChkDead {
        h: SlotId,
        depth: usize,
        nodes: usize,
    },
    /// C03 probe: guided completion
    ChkComplete {
        h: SlotId,
        attempts: usize,
        steps: usize,
        seed: u64,
    },
    /// C10/C17: all handles of the mirror group agree
    ChkMirror {
        h: SlotId,
    },
    /// C12: continued behaviour of handle, R-fresh and snapshot stays identical
    ChkContinue {
        h: SlotId,
        #[serde(default, skip_serializing_if = "Option::is_none")]
        snap: Option<SlotId>,
        picks: Vec<Pick>,
    },
    /// C13: forced bytes unique on the byte replica, ff tokens prefix + accepted
    ChkFf {
        h: SlotId,
    },
    /// C13 (iii): constraint with ff on vs off / C18 text assembled so far
    ChkText {
        h: SlotId,
    },
}

impl Op {
    pub fn is_check(&self) -> bool {
        matches!(
            self,
            Op::ChkAccept { .. }
                | Op::ChkSeq { .. }
                | Op::ChkFresh { .. }
                | Op::ChkByte { .. }
                | Op::ChkResplit { .. }
                | Op::ChkDead { .. }
                | Op::ChkComplete { .. }
                | Op::ChkMirror { .. }
                | Op::ChkContinue { .. }
                | Op::ChkFf { .. }
                | Op::ChkText { .. }
                | Op::ChkStop { .. }
        )
    }
}

#[derive(Clone, Debug, Serialize, Deserialize)]
pub struct Scenario {
    pub family: String,
    pub property: String,
    pub seed: u64,
    pub index: u64,
    pub world: WorldSpec,
    /// alternative slice lists for mirror engines (C10)
    #[serde(default)]
    pub alts: Vec<Option<Vec<String>>>,
    /// operations run by the coordinator before tasks start (single thread)
    pub setup: Vec<Op>,
    /// per task operation lists; with exactly one task and `threads == false` no threads are used
    pub tasks: Vec<Vec<Op>>,
    pub threads: bool,
    #[serde(default, skip_serializing_if = "Option::is_none")]
    pub schedule: Option<ScheduleSpec>,
    /// groups of slots that receive every mutation in lock-step (token resolved on the first member)
    #[serde(default)]
    pub mirrors: Vec<Vec<SlotId>>,
    /// true if any fault (tight limits, fuel fault, interruption, abusive call) is part of the run
    pub fault_injecting: bool,
    /// grammar is productive by construction and vocabulary byte-complete (C03 oracle applies)
    #[serde(default)]
    pub productive: bool,
    /// use the C tokenizer v2 constructor
    #[serde(default)]
    pub c_tok_v2: bool,
    /// honest commits on a finished engine first roll back a little (keeps runs productive)
    #[serde(default)]
    pub auto_restart: bool,
    /// step-budget accounting oracle (C14): observe the shared lexer's fuel counter around masks
    #[serde(default, skip_serializing_if = "std::ops::Not::not")]
    pub budget_oracle: bool,
}

#[derive(Clone, Debug, Serialize, Deserialize)]
pub struct Violation {
    pub property: String,
    pub oracle: String,
    pub task: usize,
    pub step: usize,
    pub detail: String,
    /// structural signature used to match known findings
    pub signature: String,
}

#[derive(Clone, Debug, Serialize, Deserialize)]
pub struct ReplayFile {
    pub scenario: Scenario,
    pub violation: Option<Violation>,
    #[serde(default)]
    pub note: String,
    /// regression scenarios only: "fixed" (must pass) or "known" (known finding, must still fail the same way)
    #[serde(default, skip_serializing_if = "Option::is_none")]
    pub expect: Option<String>,
    /// regression scenarios only: properties whose checks replay this file
    #[serde(default, skip_serializing_if = "Vec::is_empty")]
    pub applies_to: Vec<String>,
    #[serde(default, skip_serializing_if = "Option::is_none")]
    pub what: Option<String>,
    /// regression scenarios only: CPU-time budget for this scenario (default 180 s)
    #[serde(default, skip_serializing_if = "Option::is_none")]
    pub cpu_limit_secs: Option<u64>,
}

impl ReplayFile {
    pub fn new(scenario: Scenario, violation: Option<Violation>, note: &str) -> Self {
        ReplayFile {
            scenario,
            violation,
            note: note.to_string(),
            expect: None,
            applies_to: vec![],
            what: None,
            cpu_limit_secs: None,
        }
    }
}
