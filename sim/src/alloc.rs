//! Allocator stub: a poisoning wrapper around `System`.
//! Every block is followed by a red zone filled with 0xA5, so reading past an allocation has a
//! deterministic, observable effect (non-zero 0xA5A5A5A5 words); the red zone is verified on free
//! (a write past the block is detected), and freed memory is filled with 0x5A.

use std::alloc::{GlobalAlloc, Layout, System};
use std::sync::atomic::{AtomicU64, Ordering};

pub struct PoisonAlloc;

const RED: usize = 64;
static ALLOCS: AtomicU64 = AtomicU64::new(0);
static REDZONE_CORRUPT: AtomicU64 = AtomicU64::new(0);

#[inline]
fn padded(layout: Layout) -> Layout {
    // keep the caller's alignment; only the size grows
    unsafe { Layout::from_size_align_unchecked(layout.size() + RED, layout.align()) }
}

unsafe impl GlobalAlloc for PoisonAlloc {
    unsafe fn alloc(&self, layout: Layout) -> *mut u8 {
        let p = System.alloc(padded(layout));
        if !p.is_null() {
            std::ptr::write_bytes(p.add(layout.size()), 0xA5, RED);
            ALLOCS.fetch_add(1, Ordering::Relaxed);
        }
        p
    }

    unsafe fn alloc_zeroed(&self, layout: Layout) -> *mut u8 {
        let p = System.alloc_zeroed(padded(layout));
        if !p.is_null() {
            std::ptr::write_bytes(p.add(layout.size()), 0xA5, RED);
            ALLOCS.fetch_add(1, Ordering::Relaxed);
        }
        p
    }

    unsafe fn dealloc(&self, p: *mut u8, layout: Layout) {
        let rz = std::slice::from_raw_parts(p.add(layout.size()), RED);
        if rz.iter().any(|b| *b != 0xA5) {
            REDZONE_CORRUPT.fetch_add(1, Ordering::Relaxed);
        }
        std::ptr::write_bytes(p, 0x5A, layout.size());
        System.dealloc(p, padded(layout));
    }

    unsafe fn realloc(&self, p: *mut u8, layout: Layout, new_size: usize) -> *mut u8 {
        let rz = std::slice::from_raw_parts(p.add(layout.size()), RED);
        if rz.iter().any(|b| *b != 0xA5) {
            REDZONE_CORRUPT.fetch_add(1, Ordering::Relaxed);
        }
        let np = System.realloc(p, padded(layout), new_size + RED);
        if !np.is_null() {
            if new_size > layout.size() {
                // the grown part is uninitialised for the caller: poison it
                std::ptr::write_bytes(np.add(layout.size()), 0xA5, new_size - layout.size());
            }
            std::ptr::write_bytes(np.add(new_size), 0xA5, RED);
        }
        np
    }
}

pub fn redzone_corruptions() -> u64 {
    REDZONE_CORRUPT.load(Ordering::Relaxed)
}

pub fn stats() -> serde_json::Value {
    serde_json::json!({
        "allocations_with_redzone": ALLOCS.load(Ordering::Relaxed),
        "redzone_corruptions_detected": redzone_corruptions(),
    })
}
