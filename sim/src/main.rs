mod alloc;
mod checks;
mod corpus;
mod exec;
mod families;
mod handle;
mod minimize;
mod ops2;
mod rng;
mod run;
mod scenario;
mod sched;
mod world;

use std::collections::{BTreeMap, HashSet};
use std::io::{BufRead, BufReader, Write};
use std::process::{Command, Stdio};
use std::time::{Duration, Instant};

use families::Tier;
use scenario::*;
use serde_json::{json, Value};

// Under Miri the interpreter itself checks every access; the poisoning allocator (which reads its
// red zones through pointers whose provenance Miri narrows) is left out there.
#[cfg(not(miri))]
#[global_allocator]
static GLOBAL: alloc::PoisonAlloc = alloc::PoisonAlloc;

const DEFAULT_SEED: u64 = 20260923;

fn arg<'a>(args: &'a [String], name: &str) -> Option<&'a str> {
    args.iter()
        .position(|a| a == name)
        .and_then(|i| args.get(i + 1))
        .map(|s| s.as_str())
}

fn flag(args: &[String], name: &str) -> bool {
    args.iter().any(|a| a == name)
}

fn tier_of(s: &str) -> Tier {
    if s == "thorough" {
        Tier::Thorough
    } else {
        Tier::Quick
    }
}

fn tier_name(t: Tier) -> &'static str {
    match t {
        Tier::Quick => "quick",
        Tier::Thorough => "thorough",
    }
}

fn quiet_panics() {
    // panics are part of the fault model (interruption); keep stderr readable.
    // llguidance's own hook wrapper chains to this one.
    std::panic::set_hook(Box::new(|_| {}));
}

/// Run a scenario on a thread with a main-thread sized stack, under a watchdog.
/// Returns None if the run did not finish within `limit` (hang).
fn process_cpu_secs() -> f64 {
    let mut ts = libc::timespec {
        tv_sec: 0,
        tv_nsec: 0,
    };
    unsafe { libc::clock_gettime(libc::CLOCK_PROCESS_CPUTIME_ID, &mut ts) };
    ts.tv_sec as f64 + ts.tv_nsec as f64 * 1e-9
}

/// `limit` is a budget of CPU time consumed by this process while the run is in progress (the
/// worker runs one scenario at a time), so a loaded machine does not turn slow runs into "hangs".
/// A run that burns no CPU (deadlock) is caught by a wall-clock bound of 15x the limit.
fn run_guarded(sc: &Scenario, keep_log: bool, limit: Duration) -> Option<run::Outcome> {
    let sc2 = sc.clone();
    let (tx, rx) = std::sync::mpsc::channel();
    std::thread::Builder::new()
        .stack_size(8 << 20)
        .spawn(move || {
            let o = run::run_scenario(&sc2, keep_log);
            let _ = tx.send(o);
        })
        .unwrap();
    let cpu0 = process_cpu_secs();
    let t0 = Instant::now();
    loop {
        match rx.recv_timeout(Duration::from_millis(500)) {
            Ok(o) => return Some(o),
            Err(std::sync::mpsc::RecvTimeoutError::Disconnected) => return None,
            Err(std::sync::mpsc::RecvTimeoutError::Timeout) => {
                if process_cpu_secs() - cpu0 > limit.as_secs_f64() || t0.elapsed() > limit * 15 {
                    return None;
                }
            }
        }
    }
}

fn write_replay(dir: &str, name: &str, rf: &ReplayFile) -> String {
    std::fs::create_dir_all(dir).ok();
    let path = format!("{dir}/{name}.json");
    std::fs::write(&path, serde_json::to_string_pretty(rf).unwrap()).unwrap();
    path
}

// ---------------------------------------------------------------------------- worker

fn worker(args: &[String]) -> i32 {
    quiet_panics();
    sched::install_hooks();
    let prop = arg(args, "--prop").unwrap().to_string();
    let tier = tier_of(arg(args, "--tier").unwrap_or("quick"));
    let seed: u64 = arg(args, "--seed").unwrap().parse().unwrap();
    let shard: u64 = arg(args, "--shard").unwrap().parse().unwrap();
    let nshards: u64 = arg(args, "--nshards").unwrap().parse().unwrap();
    let count: u64 = arg(args, "--count").unwrap().parse().unwrap();
    let start: u64 = arg(args, "--start").map(|s| s.parse().unwrap()).unwrap_or(0);
    let out_dir = arg(args, "--out").unwrap_or("/verif/out").to_string();
    let per_run = flag(args, "--per-run");
    if flag(args, "--real-threads") {
        run::REAL_THREADS.store(true, std::sync::atomic::Ordering::Relaxed);
    }
    let hang_limit = Duration::from_secs(
        arg(args, "--hang-secs")
            .map(|s| s.parse().unwrap())
            .unwrap_or(240),
    );
    let inflight = format!("{out_dir}/inflight/{prop}-{}-{shard}.json", tier_name(tier));
    std::fs::create_dir_all(format!("{out_dir}/inflight")).ok();
    let stdout = std::io::stdout();
    let mut agg = exec::RunStats::default();
    let mut sched_agg: BTreeMap<String, u64> = BTreeMap::new();
    let mut sched_hashes: HashSet<u64> = HashSet::new();
    let mut trace_hashes: HashSet<u64> = HashSet::new();
    let mut fam_counts: BTreeMap<String, u64> = BTreeMap::new();
    let mut runs = 0u64;
    let mut runs_fault_free = 0u64;
    let mut rejected = 0u64;
    let mut samples: Vec<Value> = vec![];
    let mut n_viol = 0;
    let mut i = start + shard;
    while i < start + count {
        let sc = families::generate(&prop, seed, tier, i);
        // in-flight file first: if this process dies, it is the replay file
        std::fs::write(
            &inflight,
            serde_json::to_string(&ReplayFile::new(sc.clone(), None, "in flight"))
            .unwrap(),
        )
        .ok();
        let want_log = samples.len() < 2 && shard == 0;
        let t0 = Instant::now();
        let rz0 = alloc::redzone_corruptions();
        let o = run_guarded(&sc, want_log, hang_limit);
        let o = o.map(|mut o| {
            // a write past the end of a heap block (detected when the block is freed)
            if o.violation.is_none() && alloc::redzone_corruptions() > rz0 {
                o.violation = Some(Violation {
                    property: prop.clone(),
                    oracle: "heap_bounds".into(),
                    task: 0,
                    step: 0,
                    detail: "a heap block's red zone was overwritten during this run (write past the end of an allocation)".into(),
                    signature: "heap_redzone_corrupted".into(),
                });
            }
            o
        });
        let o = match o {
            Some(o) => o,
            None => {
                let v = Violation {
                    property: prop.clone(),
                    oracle: "no_hang".into(),
                    task: 0,
                    step: 0,
                    detail: format!("run did not finish within {}s of CPU time", hang_limit.as_secs()),
                    signature: "hang".into(),
                };
                let path = write_replay(
                    &format!("{out_dir}/replays"),
                    &format!("{prop}-{}-{}-{i}-hang", tier_name(tier), seed),
                    &ReplayFile::new(sc.clone(), Some(v.clone()), "watchdog expired"),
                );
                let line = json!({"t":"viol","i":i,"v":v,"replay":path,"minimized":false});
                writeln!(stdout.lock(), "{}", line).ok();
                // the stuck thread cannot be recovered: end this worker
                return 3;
            }
        };
        runs += 1;
        *fam_counts.entry(sc.family.clone()).or_insert(0) += 1;
        if !sc.fault_injecting {
            runs_fault_free += 1;
        }
        if o.rejected.is_some() {
            rejected += 1;
        }
        agg.merge(&o.stats);
        if let Some(s) = &o.sched {
            *sched_agg.entry("sched_points".into()).or_insert(0) += s.sched_points;
            *sched_agg.entry("decisions".into()).or_insert(0) += s.decisions;
            *sched_agg.entry("switches".into()).or_insert(0) += s.switches;
            *sched_agg.entry("blocked_on_lock".into()).or_insert(0) += s.blocked_on_lock;
            *sched_agg
                .entry("switches_in_critical_section".into())
                .or_insert(0) += s.switches_in_critical_section;
            *sched_agg.entry("tasks_spawned".into()).or_insert(0) += s.tasks_spawned;
            *sched_agg.entry("par_batches".into()).or_insert(0) += s.par_batches;
            *sched_agg.entry("scheduled_runs".into()).or_insert(0) += 1;
            if s.decisions > 0 {
                sched_hashes.insert(s.schedule_hash);
            }
        }
        trace_hashes.insert(o.hash);
        if per_run {
            let line = json!({"t":"run","i":i,"h":format!("{:016x}", o.hash),
                "viol": o.violation.as_ref().map(|v| v.signature.clone()),
                "ms": t0.elapsed().as_millis() as u64});
            writeln!(stdout.lock(), "{}", line).ok();
        }
        if want_log && o.violation.is_none() && o.stats.ops > 3 {
            let mut log = o.log.clone();
            let total = log.len();
            log.truncate(40);
            samples.push(json!({
                "run_index": i,
                "family": sc.family,
                "grammar": sc.world.grammar_id,
                "vocab": format!("{}:{}", sc.world.vocab.kind, sc.world.vocab.words.len()),
                "canonical": sc.world.canonical,
                "fault_injecting": sc.fault_injecting,
                "tasks": sc.tasks.len(),
                "events_total": total,
                "events_head": log,
            }));
        }
        if let Some(v) = o.violation {
            n_viol += 1;
            let base = format!("{prop}-{}-{}-{i}", tier_name(tier), seed);
            let orig = ReplayFile::new(sc.clone(), Some(v.clone()), "original failing scenario");
            write_replay(&format!("{out_dir}/replays"), &format!("{base}-orig"), &orig);
            // minimise (bounded), then write the minimised file: that is what gets reported
            let (msc, mv, tried) = minimize::minimize(&sc, &v, 300, Duration::from_secs(60));
            let path = write_replay(
                &format!("{out_dir}/replays"),
                &format!("{base}-min"),
                &ReplayFile::new(msc, Some(mv.clone()), &format!("minimised with {tried} candidate runs")),
            );
            let line = json!({"t":"viol","i":i,"v":mv,"replay":path,"minimized":true});
            writeln!(stdout.lock(), "{}", line).ok();
            if n_viol >= 3 {
                break;
            }
        }
        i += nshards;
    }
    std::fs::remove_file(&inflight).ok();
    let mut sh: Vec<u64> = agg.state_hashes.clone();
    sh.sort();
    sh.dedup();
    let line = json!({
        "t":"done","shard":shard,"runs":runs,"runs_fault_free":runs_fault_free,"rejected":rejected,
        "stats": agg, "sched": sched_agg,
        "distinct_schedules": sched_hashes.iter().map(|h| format!("{:x}", h)).collect::<Vec<_>>(),
        "distinct_traces": trace_hashes.len(),
        "state_hashes": sh.iter().map(|h| format!("{:x}", h)).collect::<Vec<_>>(),
        "families": fam_counts,
        "samples": samples,
        "tokenize_cb_short": handle::TOKENIZE_CB_SHORT.load(std::sync::atomic::Ordering::Relaxed),
        "alloc": alloc::stats(),
    });
    writeln!(stdout.lock(), "{}", line).ok();
    0
}

// ---------------------------------------------------------------------------- batch (parent)

struct Known {
    property: String,
    signature: String,
    grammar: Option<String>,
    detail_contains: Option<String>,
    /// the finding is about JSON arrays with minItems / maxItems of at least this size
    array_items_at_least: Option<u64>,
    what: String,
}

/// largest number following "minItems" / "maxItems" in a schema text
fn max_array_items(text: &str) -> Option<u64> {
    let mut best: Option<u64> = None;
    for key in ["\"minItems\"", "\"maxItems\""] {
        let mut i = 0;
        while let Some(p) = text[i..].find(key) {
            let st = i + p + key.len();
            let rest: String = text[st..]
                .chars()
                .skip_while(|c| *c == ':' || c.is_whitespace())
                .take_while(|c| c.is_ascii_digit())
                .collect();
            if let Ok(v) = rest.parse::<u64>() {
                best = Some(best.map_or(v, |b| b.max(v)));
            } else if rest.len() > 19 {
                best = Some(u64::MAX);
            }
            i = st;
        }
    }
    best
}

fn load_known(path: &str) -> Vec<Known> {
    let mut out = vec![];
    if let Ok(s) = std::fs::read_to_string(path) {
        if let Ok(v) = serde_json::from_str::<Value>(&s) {
            if let Some(a) = v.get("known").and_then(|x| x.as_array()) {
                for k in a {
                    out.push(Known {
                        property: k["property"].as_str().unwrap_or("").to_string(),
                        signature: k["signature"].as_str().unwrap_or("").to_string(),
                        grammar: k.get("grammar").and_then(|x| x.as_str()).map(|s| s.to_string()),
                        detail_contains: k
                            .get("detail_contains")
                            .and_then(|x| x.as_str())
                            .map(|s| s.to_string()),
                        array_items_at_least: k.get("array_items_at_least").and_then(|x| x.as_u64()),
                        what: k["what"].as_str().unwrap_or("").to_string(),
                    });
                }
            }
        }
    }
    out
}

fn batch(args: &[String]) -> i32 {
    let prop = arg(args, "--prop").unwrap().to_string();
    let tier = tier_of(arg(args, "--tier").unwrap_or("quick"));
    let seed: u64 = arg(args, "--seed")
        .map(|s| s.parse().unwrap())
        .unwrap_or(DEFAULT_SEED);
    let jobs: u64 = arg(args, "--jobs").map(|s| s.parse().unwrap()).unwrap_or(16);
    let out_dir = arg(args, "--out").unwrap_or("/verif/out").to_string();
    let count: u64 = arg(args, "--count")
        .map(|s| s.parse().unwrap())
        .unwrap_or_else(|| families::run_count(&prop, tier));
    let evidence = arg(args, "--evidence").map(|s| s.to_string());
    let known = load_known(arg(args, "--known").unwrap_or("/verif/known_findings.json"));
    let flavour = arg(args, "--flavour").unwrap_or("verif").to_string();
    let extra: Option<Value> = arg(args, "--extra-json").and_then(|p| {
        std::fs::read_to_string(p)
            .ok()
            .and_then(|s| serde_json::from_str(&s).ok())
    });
    let t0 = Instant::now();
    println!(
        "llg-sim batch property={prop} tier={} VERIF_SEED={seed} runs={count} workers={jobs} hooks_compiled={} flavour={flavour}",
        tier_name(tier),
        sched::HOOKS_COMPILED
    );
    let exe = std::env::current_exe().unwrap();
    let mut children = vec![];
    for shard in 0..jobs {
        let mut c = Command::new(&exe);
        c.arg("worker")
            .args(["--prop", &prop])
            .args(["--tier", tier_name(tier)])
            .args(["--seed", &seed.to_string()])
            .args(["--shard", &shard.to_string()])
            .args(["--nshards", &jobs.to_string()])
            .args(["--count", &count.to_string()])
            .args(["--out", &out_dir])
            .stdout(Stdio::piped())
            .stderr(Stdio::null());
        if let Some(h) = arg(args, "--hang-secs") {
            c.args(["--hang-secs", h]);
        }
        if flag(args, "--real-threads") {
            c.arg("--real-threads");
        }
        if let Some(st) = arg(args, "--start") {
            c.args(["--start", st]);
        }
        children.push((shard, c.spawn().expect("spawn worker")));
    }
    let mut total = exec::RunStats::default();
    let mut sched_tot: BTreeMap<String, u64> = BTreeMap::new();
    let mut fam_tot: BTreeMap<String, u64> = BTreeMap::new();
    let mut states: HashSet<String> = HashSet::new();
    let mut schedules: HashSet<String> = HashSet::new();
    let mut traces = 0u64;
    let mut runs = 0u64;
    let mut runs_ff = 0u64;
    let mut rejected = 0u64;
    let mut samples: Vec<Value> = vec![];
    let mut violations: Vec<(Value, String)> = vec![];
    let mut harness_errors: Vec<String> = vec![];
    let mut cb_short = 0u64;
    let mut alloc_stats: BTreeMap<String, u64> = BTreeMap::new();
    // read all workers (sequentially draining; workers run concurrently and buffer in pipes,
    // so drain each on its own thread)
    let mut readers = vec![];
    for (shard, mut ch) in children {
        let stdout = ch.stdout.take().unwrap();
        readers.push(std::thread::spawn(move || {
            let mut lines = vec![];
            for l in BufReader::new(stdout).lines().map_while(|l| l.ok()) {
                lines.push(l);
            }
            let status = ch.wait().ok();
            (shard, lines, status)
        }));
    }
    for r in readers {
        let (shard, lines, status) = r.join().unwrap();
        let mut done = false;
        for l in lines {
            let v: Value = match serde_json::from_str(&l) {
                Ok(v) => v,
                Err(_) => continue,
            };
            match v["t"].as_str() {
                Some("viol") => {
                    violations.push((v["v"].clone(), v["replay"].as_str().unwrap_or("").to_string()));
                }
                Some("done") => {
                    done = true;
                    runs += v["runs"].as_u64().unwrap_or(0);
                    runs_ff += v["runs_fault_free"].as_u64().unwrap_or(0);
                    rejected += v["rejected"].as_u64().unwrap_or(0);
                    traces += v["distinct_traces"].as_u64().unwrap_or(0);
                    cb_short += v["tokenize_cb_short"].as_u64().unwrap_or(0);
                    let st = &v["stats"];
                    total.ops += st["ops"].as_u64().unwrap_or(0);
                    total.checks += st["checks"].as_u64().unwrap_or(0);
                    total.checks_skipped += st["checks_skipped"].as_u64().unwrap_or(0);
                    total.masks += st["masks"].as_u64().unwrap_or(0);
                    total.commits += st["commits"].as_u64().unwrap_or(0);
                    total.rollbacks += st["rollbacks"].as_u64().unwrap_or(0);
                    total.tokens_checked += st["tokens_checked"].as_u64().unwrap_or(0);
                    total.states += st["states"].as_u64().unwrap_or(0);
                    total.fuel += st["fuel"].as_u64().unwrap_or(0);
                    for (k, x) in st["faults"].as_object().into_iter().flatten() {
                        *total.faults.entry(k.clone()).or_insert(0) += x.as_u64().unwrap_or(0);
                    }
                    for (k, x) in st["probes"].as_object().into_iter().flatten() {
                        *total.probes.entry(k.clone()).or_insert(0) += x.as_u64().unwrap_or(0);
                    }
                    for (k, x) in v["sched"].as_object().into_iter().flatten() {
                        *sched_tot.entry(k.clone()).or_insert(0) += x.as_u64().unwrap_or(0);
                    }
                    for (k, x) in v["families"].as_object().into_iter().flatten() {
                        *fam_tot.entry(k.clone()).or_insert(0) += x.as_u64().unwrap_or(0);
                    }
                    for (k, x) in v["alloc"].as_object().into_iter().flatten() {
                        *alloc_stats.entry(k.clone()).or_insert(0) += x.as_u64().unwrap_or(0);
                    }
                    for h in v["state_hashes"].as_array().into_iter().flatten() {
                        states.insert(h.as_str().unwrap_or("").to_string());
                    }
                    for h in v["distinct_schedules"].as_array().into_iter().flatten() {
                        schedules.insert(h.as_str().unwrap_or("").to_string());
                    }
                    for s in v["samples"].as_array().into_iter().flatten() {
                        if samples.len() < 3 {
                            samples.push(s.clone());
                        }
                    }
                }
                _ => {}
            }
        }
        let ok = status.map(|s| s.success()).unwrap_or(false);
        if !done {
            // the worker died (abort, stack overflow, watchdog): its in-flight file is the replay file
            let inflight = format!("{out_dir}/inflight/{prop}-{}-{shard}.json", tier_name(tier));
            let code = status.map(|s| format!("{s}")).unwrap_or_default();
            if status.and_then(|s| s.code()) == Some(3) {
                // watchdog: the violation line was already emitted
            } else if std::path::Path::new(&inflight).exists() {
                let dest = format!("{out_dir}/replays/{prop}-{}-{seed}-shard{shard}-crash.json", tier_name(tier));
                std::fs::create_dir_all(format!("{out_dir}/replays")).ok();
                let mut rf: ReplayFile =
                    serde_json::from_str(&std::fs::read_to_string(&inflight).unwrap()).unwrap();
                let v = Violation {
                    property: prop.clone(),
                    oracle: "no_abort".into(),
                    task: 0,
                    step: 0,
                    detail: format!("worker process died ({code}) while running this scenario"),
                    signature: "process_died".into(),
                };
                rf.violation = Some(v.clone());
                rf.note = "in-flight scenario of a worker that died".into();
                std::fs::write(&dest, serde_json::to_string_pretty(&rf).unwrap()).ok();
                violations.push((serde_json::to_value(&v).unwrap(), dest));
            } else {
                harness_errors.push(format!("worker {shard} ended without summary ({code})"));
            }
        } else if !ok && status.and_then(|s| s.code()) != Some(0) {
            harness_errors.push(format!("worker {shard} exit {:?}", status));
        }
    }
    let wall = t0.elapsed().as_secs_f64();
    // known findings
    let mut n_new = 0;
    let mut known_lines = vec![];
    let mut viol_lines = vec![];
    for (v, replay) in &violations {
        let sig = v["signature"].as_str().unwrap_or("");
        let rfile = std::fs::read_to_string(replay)
            .ok()
            .and_then(|s| serde_json::from_str::<Value>(&s).ok());
        let grammar = rfile
            .as_ref()
            .and_then(|r| r["scenario"]["world"]["grammar_id"].as_str().map(|s| s.to_string()));
        let items = rfile
            .as_ref()
            .and_then(|r| r["scenario"]["world"]["grammar_text"].as_str().and_then(max_array_items));
        let k = known.iter().find(|k| {
            k.property == prop
                && k.signature == sig
                && (k.grammar.is_none() || k.grammar == grammar)
                && k.array_items_at_least.map(|n| items.map(|i| i >= n).unwrap_or(false)).unwrap_or(true)
                && k
                    .detail_contains
                    .as_ref()
                    .map(|d| v["detail"].as_str().unwrap_or("").contains(d.as_str()))
                    .unwrap_or(true)
        });
        match k {
            Some(k) => known_lines.push(format!("KNOWN-FINDING: property={prop} {}", k.what)),
            None => {
                n_new += 1;
                viol_lines.push(format!("VIOLATION property={prop} replay={replay}"));
                println!(
                    "  oracle={} signature={} detail={}",
                    v["oracle"].as_str().unwrap_or(""),
                    sig,
                    v["detail"].as_str().unwrap_or("")
                );
            }
        }
    }
    known_lines.sort();
    known_lines.dedup();
    for l in &known_lines {
        println!("{l}");
    }
    for l in &viol_lines {
        println!("{l}");
    }
    let distinct_states = states.len() as u64;
    let rph = if wall > 0.0 { runs as f64 / wall * 3600.0 } else { 0.0 };
    println!(
        "runs={runs} (fault-free {runs_ff}, fault-injecting {}) ops={} checks={} masks={} commits={} distinct_states={distinct_states} distinct_traces={traces} distinct_schedules={} wall={:.1}s runs/hour={:.0}",
        runs - runs_ff,
        total.ops,
        total.checks,
        total.masks,
        total.commits,
        schedules.len(),
        wall,
        rph
    );
    println!("faults fired: {:?}", total.faults);
    println!("probes: {:?}", total.probes);
    if !sched_tot.is_empty() {
        println!("scheduler: {:?}", sched_tot);
    }
    if let Some(path) = evidence {
        let zero_probes: Vec<&str> = expected_probes(&prop)
            .into_iter()
            .filter(|p| total.probes.get(*p).copied().unwrap_or(0) == 0 && total.faults.get(*p).copied().unwrap_or(0) == 0)
            .collect();
        let mut cov = json!({
            "evaluations": runs,
            "distinct_nontrivial": distinct_states,
            "rule": "one evaluation = one simulated run (a seeded scenario: world + operation lists per task + schedule + fault decisions). distinct_nontrivial = number of distinct engine states visited after at least one committed token, measured as distinct hashes of (grammar id, vocabulary size, committed byte string) over all runs of this batch.",
            "samples": samples,
            "runs_fault_free": runs_ff,
            "runs_fault_injecting": runs - runs_ff,
            "inputs_rejected_with_error": rejected,
            "runs_per_hour": rph.round(),
            "operations_executed": total.ops,
            "oracle_checks_executed": total.checks,
            "oracle_checks_skipped": total.checks_skipped,
            "masks_computed": total.masks,
            "commits": total.commits,
            "rollbacks": total.rollbacks,
            "token_ids_judged": total.tokens_checked,
            "states_visited": total.states,
            "distinct_event_traces": traces,
            "distinct_schedules": schedules.len(),
            "fault_kinds_fired": total.faults,
            "reach_probes": total.probes,
            "coverage_holes_probes_at_zero": zero_probes,
            "scheduler": sched_tot,
            "families": fam_tot,
            "simulated_time": "no clock is read for any decision; simulated time is counted in scheduling points and operations (see scheduler.sched_points, operations_executed)",
            "tokenizer_callback_buffer_too_small": cb_short,
            "allocator_stub": alloc_stats,
            "hooks_compiled": sched::HOOKS_COMPILED,
            "build_flavour": flavour,
            "real_vs_stub": {
                "llguidance parser crate, toktrie, derivre": "real, built from /repo working tree",
                "LLM sampler": "stub (seeded picks over the mask, plus misbehaving picks)",
                "tokenizer": "stub (TokenizerEnv trait / C tokenize_fn callback: greedy or rank-based BPE)",
                "rayon": if sched::HOOKS_COMPILED { "stub (cfg-guarded shim hands the same closures to the simulator)" } else { "real" },
                "std::sync::Mutex": "real; acquisition preceded by a guarded scheduling hook",
                "allocator": "stub (poisoning wrapper around System: red zones, fill patterns)",
                "clock": "not virtualised (statistics only, excluded from logs)"
            },
            "known_findings_matched": known_lines,
            "harness_errors": harness_errors,
        });
        if let Some(e) = extra {
            cov["supplements"] = e;
        }
        let ev = json!({
            "property_id": prop,
            "tier": tier_name(tier),
            "seed": seed,
            "level": "exploration",
            "coverage": cov,
            "assumptions": [
                "seeded search: a clean batch is evidence, not proof",
                "reference engines (fresh engine replaying committed tokens, byte-level replica) share the lexer/parser implementation with the system under test: a bug that changes all paths consistently is invisible",
                "hash-map iteration order inside llguidance is not controlled; event logs contain API-level observables only and the determinism self-test compares them across processes",
                "vocabularies contain no empty tokens; grammars are in the core fragment"
            ],
            "wall_s": wall,
            "violations": n_new,
        });
        if let Some(dir) = std::path::Path::new(&path).parent() {
            std::fs::create_dir_all(dir).ok();
        }
        std::fs::write(&path, serde_json::to_string_pretty(&ev).unwrap()).unwrap();
    }
    if !harness_errors.is_empty() {
        for e in &harness_errors {
            println!("HARNESS-ERROR {e}");
        }
        return 2;
    }
    if n_new > 0 {
        1
    } else {
        println!("OK property={prop} held on everything explored");
        0
    }
}

fn expected_probes(prop: &str) -> Vec<&'static str> {
    match prop {
        "C01" => vec!["row_reuse_hit", "multibyte_token_committed", "canonical_narrowing", "clone_shallow", "clone_deep", "fuel_exhausted_mid_operation", "cache_loss", "eos_committed"],
        "C02" => vec!["multibyte_token_committed", "token_not_utf8_aligned", "natural_stop_checked", "resplit_compared"],
        "C03" => vec!["dead_end_search_complete_to_depth", "dead_end_search_budget_exhausted", "guided_completion_ok"],
        "C10" => vec!["slice_applied", "multibyte_token_committed"],
        "C11" => vec!["row_reuse_hit", "cache_loss", "rollback_to_empty", "forced_bytes_nonempty"],
        "C12" => vec!["rollback_to_empty", "rollback_over_eos", "rollback_after_stop", "snapshot_compared"],
        "C13" => vec!["forced_bytes_nonempty", "ff_tokens_nonempty", "ff_tokens_in_commit", "prompt_processed", "token_healing_chopped_prompt", "ff_tokens_consumed"],
        "C14" => vec!["task_blocked_on_lock", "context_switch_in_critical_section", "clone_shallow", "clone_deep", "sibling_saw_poisoned_lock", "interruption_in_critical_section", "par_mask_async", "par_mask_sync", "stop_controller_cloned"],
        "C17" => vec!["par_buffer_short", "par_buffer_exact", "par_buffer_long", "par_mask_async", "mis_sized_buffer"],
        "C18" => vec!["natural_stop_checked", "constraint_stop_reported", "call_after_stop", "token_not_in_mask", "token_out_of_range", "commit_without_mask", "stop_string_hit", "stop_token_hit", "stop_text_withheld", "eos_committed"],
        "C20" => vec!["fuel_exhausted_mid_operation", "interruption_in_critical_section", "lexer_error_entered", "rollback_too_far", "token_out_of_range", "construction_limit"],
        _ => vec![],
    }
}

// ---------------------------------------------------------------------------- replay / misc

fn replay(args: &[String]) -> i32 {
    quiet_panics();
    sched::install_hooks();
    let path = &args[2];
    let rf: ReplayFile = match std::fs::read_to_string(path)
        .map_err(|e| e.to_string())
        .and_then(|s| serde_json::from_str(&s).map_err(|e| e.to_string()))
    {
        Ok(r) => r,
        Err(e) => {
            eprintln!("cannot read replay file: {e}");
            return 2;
        }
    };
    let trace = flag(args, "--trace");
    let o = run_guarded(&rf.scenario, trace, Duration::from_secs(300));
    let prop = rf.scenario.property.clone();
    match o {
        None => {
            println!("run did not finish (hang)");
            println!("VIOLATION property={prop} replay={path}");
            1
        }
        Some(o) => {
            if trace {
                for l in &o.log {
                    println!("{l}");
                }
            }
            println!("event-log hash {:016x}", o.hash);
            match (&o.violation, &rf.violation) {
                (Some(v), exp) => {
                    println!(
                        "violation: oracle={} signature={} task={} step={}\n  {}",
                        v.oracle, v.signature, v.task, v.step, v.detail
                    );
                    if let Some(e) = exp {
                        if e.signature == v.signature && e.step == v.step && e.task == v.task {
                            println!("reproduced exactly (same oracle, task and step as recorded)");
                        } else {
                            println!(
                                "differs from the recorded violation: recorded signature={} task={} step={}",
                                e.signature, e.task, e.step
                            );
                        }
                    }
                    println!("VIOLATION property={prop} replay={path}");
                    1
                }
                (None, Some(_)) => {
                    println!("recorded violation did not reproduce on this tree");
                    0
                }
                (None, None) => {
                    println!("no violation");
                    0
                }
            }
        }
    }
}

/// Replay the committed regression scenarios of a property: repaired defects must stay repaired,
/// known (unrepaired) findings are reported as such.
fn regress(args: &[String]) -> i32 {
    quiet_panics();
    sched::install_hooks();
    let prop = arg(args, "--prop").unwrap();
    let dir = arg(args, "--dir").unwrap_or("/verif/regress");
    let mut files: Vec<_> = match std::fs::read_dir(dir) {
        Ok(d) => d.filter_map(|e| e.ok()).map(|e| e.path()).collect(),
        Err(_) => vec![],
    };
    files.sort();
    // scenarios that are expected to exhaust their CPU budget leave a runaway thread behind:
    // they go last (the process exits right after the loop)
    files.sort_by_key(|f| {
        std::fs::read_to_string(f)
            .map(|s| s.contains("\"cpu_limit_secs\""))
            .unwrap_or(false)
    });
    let mut bad = 0;
    let mut n = 0;
    for f in files {
        if f.extension().map(|e| e != "json").unwrap_or(true) {
            continue;
        }
        let rf: ReplayFile = match std::fs::read_to_string(&f)
            .map_err(|e| e.to_string())
            .and_then(|s| serde_json::from_str(&s).map_err(|e| e.to_string()))
        {
            Ok(r) => r,
            Err(e) => {
                println!("HARNESS-ERROR cannot read {}: {e}", f.display());
                return 2;
            }
        };
        if !rf.applies_to.iter().any(|p| p == prop) {
            continue;
        }
        n += 1;
        let mut sc = rf.scenario.clone();
        sc.property = prop.to_string();
        let o = run_guarded(&sc, false, Duration::from_secs(rf.cpu_limit_secs.unwrap_or(180)));
        let got = match &o {
            None => Some("hang".to_string()),
            Some(o) => o.violation.as_ref().map(|v| v.signature.clone()),
        };
        let what = rf.what.clone().unwrap_or_default();
        match rf.expect.as_deref() {
            Some("known") => {
                let exp = rf.violation.as_ref().map(|v| v.signature.clone());
                if got.is_some() && got == exp {
                    println!("KNOWN-FINDING: property={prop} {what}");
                } else if got.is_none() {
                    println!("note: known finding no longer reproduces ({}): {what}", f.display());
                } else {
                    println!("  regression scenario {} fails differently: {:?}", f.display(), got);
                    println!("VIOLATION property={prop} replay={}", f.display());
                    bad += 1;
                }
            }
            _ => {
                if let Some(g) = got {
                    println!("  regression scenario {} (repaired defect: {what}) fails again: {g}", f.display());
                    println!("VIOLATION property={prop} replay={}", f.display());
                    bad += 1;
                }
            }
        }
    }
    println!("regress property={prop}: {n} scenario(s) replayed, {bad} failing");
    if bad > 0 {
        1
    } else {
        0
    }
}

/// Determinism gate: every run index is executed in several *processes* (different hash-map
/// seeds, different worker counts) and the event-log hashes must be identical.
fn selftest(args: &[String]) -> i32 {
    let prop = arg(args, "--prop").unwrap().to_string();
    let tier = arg(args, "--tier").unwrap_or("quick").to_string();
    let seed = arg(args, "--seed").unwrap_or("20260923").to_string();
    let count: u64 = arg(args, "--count").map(|s| s.parse().unwrap()).unwrap_or(200);
    let exe = std::env::current_exe().unwrap();
    let mut tables: Vec<BTreeMap<u64, String>> = vec![];
    for nshards in [1u64, 3, 7] {
        let mut children = vec![];
        for shard in 0..nshards {
            let c = Command::new(&exe)
                .arg("worker")
                .args(["--prop", &prop, "--tier", &tier, "--seed", &seed])
                .args(["--shard", &shard.to_string(), "--nshards", &nshards.to_string()])
                .args(["--count", &count.to_string(), "--out", "/verif/out/selftest", "--per-run"])
                .stdout(Stdio::piped())
                .stderr(Stdio::null())
                .spawn()
                .unwrap();
            children.push(c);
        }
        let mut t = BTreeMap::new();
        for c in children {
            let o = c.wait_with_output().unwrap();
            for l in String::from_utf8_lossy(&o.stdout).lines() {
                if let Ok(v) = serde_json::from_str::<Value>(l) {
                    if v["t"] == "run" {
                        t.insert(
                            v["i"].as_u64().unwrap(),
                            format!("{} {}", v["h"].as_str().unwrap_or(""), v["viol"]),
                        );
                    }
                }
            }
        }
        tables.push(t);
    }
    let mut bad = 0;
    for (i, h) in &tables[0] {
        for t in &tables[1..] {
            if t.get(i) != Some(h) {
                bad += 1;
                println!("NONDETERMINISM property={prop} run={i}: {h} vs {:?}", t.get(i));
            }
        }
    }
    println!(
        "selftest property={prop}: {} runs x 3 process layouts (1, 3, 7 workers), {bad} differing",
        tables[0].len()
    );
    if bad > 0 || tables[0].len() as u64 != count {
        2
    } else {
        0
    }
}

fn gen_cmd(args: &[String]) -> i32 {
    let prop = arg(args, "--prop").unwrap();
    let tier = tier_of(arg(args, "--tier").unwrap_or("quick"));
    let seed: u64 = arg(args, "--seed")
        .map(|s| s.parse().unwrap())
        .unwrap_or(DEFAULT_SEED);
    let index: u64 = arg(args, "--index").unwrap().parse().unwrap();
    let sc = families::generate(prop, seed, tier, index);
    println!(
        "{}",
        serde_json::to_string_pretty(&ReplayFile::new(sc, None, "generated"))
        .unwrap()
    );
    0
}

fn main() {
    let args: Vec<String> = std::env::args().collect();
    let code = match args.get(1).map(|s| s.as_str()) {
        Some("corpus-check") => {
            if let Err(e) = world::check_corpus() {
                eprintln!("error: {e}");
                2
            } else {
                0
            }
        }
        Some("probe") => {
            if let Err(e) = world::probe(&args[2]) {
                eprintln!("error: {e}");
                2
            } else {
                0
            }
        }
        Some("worker") => worker(&args),
        Some("batch") => batch(&args),
        Some("replay") => replay(&args),
        Some("gen") => gen_cmd(&args),
        Some("regress") => regress(&args),
        Some("selftest") => selftest(&args),
        Some("counts") => {
            let mut m = serde_json::Map::new();
            for p in ["C01", "C02", "C03", "C10", "C11", "C12", "C13", "C14", "C17", "C18", "C20"] {
                m.insert(
                    p.to_string(),
                    json!({"quick": families::run_count(p, Tier::Quick), "thorough": families::run_count(p, Tier::Thorough)}),
                );
            }
            println!("{}", Value::Object(m));
            0
        }
        _ => {
            eprintln!("usage: llg-sim batch|worker|replay|gen|corpus-check ...");
            2
        }
    };
    std::process::exit(code);
}
